"""Regenerates /verif/MANIFEST.json from the table below (run after adding a check)."""
import json
import os

VERIF = os.path.dirname(os.path.dirname(os.path.abspath(__file__)))
BASELINE = ("cd /repo && /venv/bin/python -m pytest -ra -q -p no:cacheprovider --timeout=900 "
            "--continue-on-collection-errors nixio")
TECH = "Coq theorem over Gallina model + translator/correspondence tie"

# id -> (level text, level note, design ref, technique)
CLAIMED = {
    "C09": (
        "Machine-checked Coq theorems (closed under the global context) over a Gallina model of nixio/util/units.py "
        "running the regular expressions and tables regenerated from the current source on every run: SI prefix table, "
        "exact split/recognition of all 4557 prefix-unit-power strings (kernel-checked sweep lifted to a forall), "
        "scaling = ratio of prefixes to the power, composition, inversion, refusal for different unit/power, and - via a "
        "completeness theorem for the backtracking regex matcher - recognition of products/quotients of ANY number of "
        "table atoms as compound. Sanitizer idempotence is proven for all strings outside the domain of one known finding "
        "(the full statement is refuted with a witness). The hand-written function bodies are tied to the code by an "
        "exhaustive (atomic grammar) and seeded (pairs, compounds, mutated strings) correspondence on every run.",
        "Trusted: Coq kernel + vm_compute; translator (tables by import, regexes captured through an instrumented re and "
        "parsed by Python's sre parser); Python re semantics = Pure/Regex.v on the subset, \\d as ASCII digits; factors "
        "compared as powers of ten within 1e-9; correspondence harness.",
        "DESIGN.md section 5 C09", TECH),
    "C07": (
        "Machine-checked Coq theorems over an exact-rational Gallina model of index_of / range_indices / position_at / axis / "
        "tick_at for the three dimension kinds: for every offset, every positive interval, every position and mode the result "
        "is THE last sample <= / < or first sample >= the position and None (IndexError) exactly when no such sample exists; "
        "range_indices covers exactly the samples in the interval; round trips; generated axes (started by index, by position - "
        "refused exactly before the offset -, by nothing) agree with position_at; for every ascending tick vector (repeats, "
        "single, empty) and every label count. The declarative order specification is short (Proofs/DimsBase.v). The "
        "theorems exclude, by an explicit boolean hypothesis, positions inside np.isclose's tolerance of a sample (known "
        "finding, refuted theorem with witness). The executable oracle applied to the implementation's answers is proven "
        "sound w.r.t. the specification. Tie: seeded correspondence on exact rationals of float inputs against real "
        "dimension objects of a scratch NIX file; linked range / set dimensions are compared, after every call of the "
        "dimension-link histories, with unlinked twins holding the same ticks / labels (test level).",
        "Trusted: Coq kernel; numpy semantics (np.round half-even, np.isclose formula, np.floor, np.where order) as modelled; "
        "IEEE rounding of (position-offset)/interval is not modelled (inputs within 1e-11 of a decision edge are skipped and "
        "counted); hand-written model tied by correspondence only.",
        "DESIGN.md section 5 C07", TECH),
    "C11": (
        "Machine-checked Coq theorems: (gate) for ALL integer version triples, every id state and format tag, File._check_header "
        "opens read-write iff the version equals the library's and read-only iff same major and minor not newer (+ valid id from "
        "the translated id-requirement version on), wrong format -> InvalidFile, malformed version -> refused; (modes) read-only on a "
        "missing path errs and creates nothing, overwrite yields an empty file with a fresh header, read-write keeps an existing file "
        "untouched and creates a missing one; (read-only sessions) for EVERY operation of the modelled API and every state: the "
        "store is unchanged, an operation that would change the file fails, and what succeeds returns what a writable session "
        "returns - proven once for all programs of the command monad. Library version / format tag / id-requirement literal are "
        "regenerated from nixio/file.py on every run. Tie: exhaustive grid of crafted headers opened with the real File.open, and "
        "random histories with read-only sessions (results, walks, sha256 of the file). Test-level extension of the alphabet at "
        "every read-only reopen: every public property / reader method of every entity (reflection) answers as in a writable "
        "session on a byte-identical copy, and every settable attribute that holds a value refuses None and its own value, on "
        "the file and on a copy whose optional attributes were all set first.",
        "Trusted: Coq kernel; translator section FileConsts; util.is_uuid abstracted to valid/invalid/missing; byte identity after "
        "refused/read-only opens and sessions is exercised (sha256), libhdf5 not modelled; API model Nix/Api.v tied by correspondence.",
        "DESIGN.md section 5 C11", TECH),
    "C02": (
        "Coq theorems over the store model: reopening keeps the walk (true by construction of the model: a file is its node list, "
        "handles hold addresses), the walk is a function of five leaf observations, last write wins, every other attribute and "
        "link is framed. The content of the claim comes from the correspondence: the real file is walked through fresh objects "
        "after every operation and after every close+reopen, operations go through randomly chosen old handles, and the digests "
        "must equal the model's; plus the trace predicate walk-after-reopen = walk-before-close on the implementation alone, a "
        "reflection sweep over every read accessor before closing / after reopening, and numeric attributes assigned "
        "int / float / numpy sequences read back through fresh objects (test level).",
        "Trusted: see evidence.trusted_base. Modelled kinds: blocks, groups, arrays (opaque data), tags, multi-tags, features, "
        "sources, sections, properties, data frames (one column); dimension descriptors only through the dimension-link "
        "machine and the accessor sweeps.",
        "DESIGN.md section 5 C02", TECH),
    "C03": (
        "Coq theorems: duplicate name refused with unchanged state; a created entity gets the next id of the supply with its "
        "name and type; for any container satisfying the invariant (distinct legal names that are not ids of members, distinct "
        "ids) c[i], c[i-len], c[name], c[id] designate the same member and out-of-range indices raise IndexError; new members are "
        "appended last and deletion keeps the order. Tie: histories with probes of all access paths after random steps, names "
        "incl. id-looking ones; trace predicate on the implementation's probes, id uniqueness and UUID well-formedness; "
        "caller-supplied ids (oid=) of 13 well- and ill-formed texts on the three calls that take one (test level).",
        "Trusted: see evidence.trusted_base; LinkContainer access paths are tied by correspondence only (no theorem yet).",
        "DESIGN.md section 5 C03", TECH),
    "C04": (
        "Coq theorems over the object graph, for ANY store and victim list: del container[x] is delete_all; afterwards no link "
        "anywhere points at a victim, no victim is reachable from a survivor, all attributes and all other links are kept in "
        "order, untouched nodes are identical, reachability avoiding victims is kept and nothing new becomes reachable. Tie: "
        "link-rich histories with deletions/unlinks; trace predicates on the implementation (no dangling link, unlink never "
        "deletes an entity). Known finding: deleting a block does not remove links other blocks hold to its content.",
        "Trusted: see evidence.trusted_base. 'what it owns' for blocks is NOT proven (known finding block_content).",
        "DESIGN.md section 5 C04", TECH),
    "C05": (
        "Coq theorems: a link resolves to the address it was given (alias, not copy), creating it changes no attribute, a write "
        "through one path is read through every other path to that address, a refused append changes nothing. Tie: alias "
        "histories with equal names in different blocks, attribute writes through link-obtained handles read back through the "
        "owning container, foreign/wrong-kind appends; trace predicate: no member list/reference/feature leaves its block. "
        "Dimension links: theorems over the dimension-link machine (Pure/DimLink.v) - a linked range dimension reports the target's "
        "CURRENT vector, unit and label after any later writes to the target, a linked set dimension the vector as its labels; a "
        "unit/label set through the dimension is set on the target; accepted ticks remove the link and read back, an accepted link "
        "removes the stored ticks - tied by dimension histories (every class of index specification, unlink, reopen) with stored "
        "fields and reported values compared after every call, through two Python objects of every participant. Data frames "
        "as feature data are modelled (the walk records the kind of object a feature presents). Test level: every object "
        "reached through a link answers every read accessor like the object reached through its container. DataFrame links of "
        "dimensions are not modelled.",
        "Trusted: see evidence.trusted_base.",
        "DESIGN.md section 5 C05", TECH),
    "C12": (
        "Coq theorems by a compositional calculus on the API monad (readonly / total / atomic): for create_block/section/group/"
        "data_array/tag/source(block) and create_multi_tag, link-list append/remove, container deletion, attribute and single-link "
        "setters a refused call leaves the store EQUAL to what it was; for nested create_source/create_section/create_property equal "
        "up to one empty, unreadable container group; lookups never write; create_feature and create_multi_tag validate before "
        "they create. Tie: histories with a malformed-argument stream and retries; trace predicate walk-digest-before = after for "
        "every refused call of the implementation. Dimension calls (ticks, link_data_array, labels, remove_link): every refused "
        "call returns the state it was given, with the exact refusal conditions (Pure/DimLink.v), tied by dimension histories in "
        "which all stored fields and reported values are compared before/after every refusal. EXERCISED, NOT MODELLED (test level, "
        "labelled as such): a sweep of ~140 hand-written public creating/mutating calls x classes of invalid argument on a fixed "
        "file, with the complete HDF5 content (objects, link names in order, attributes incl. timestamps, datasets) compared "
        "before/after and the rejected name retried with a valid argument; and a generic refusal fuzzer (reflection over every "
        "settable attribute and creating/appending/linking/writing method of every kind of object x 26 ill-typed / ill-shaped / "
        "out-of-range / wrong-kind values per parameter: ~9 700 calls over ~370 call sites, a seeded sample of 640 in quick, all "
        "in thorough) under the same before/after comparison.",
        "Trusted: see evidence.trusted_base. Refusals of data writes are covered by C01 (arrays), C10 (values), C16 (data frames); "
        "DataFrame dimension links are exercised by the sweep and the fuzzer, not modelled. A refused call may leave one new EMPTY "
        "container group (unreadable through the API; theorem c12_nested_creators states it for the modelled creators).",
        "DESIGN.md section 5 C12", TECH),
    "C19": (
        "Coq theorems: (calendar) every whole second in [1970, 2100) survives time_to_str then str_to_time - the day<->civil part "
        "by a kernel-checked sweep over all 47 482 days lifted to a forall, fixed-width decimal print/parse proven for every width, "
        "format strings translated from util.py; (operations, over the API model) no setter / link operation / deletion / lookup / "
        "reopen changes the creation time of any existing entity; with automatic timestamps off those operations change no "
        "timestamp at all; with them on a successful setter of a listed attribute sets exactly its own entity's update time to the "
        "clock and no other's; forced times read back. The model performs the guarded update exactly when the table extracted by "
        "ast from the current source lists the setter, and c19_table_complete requires every attribute named by the property to "
        "be in that table (so removing a guarded call breaks the build). Tie: clocked histories with toggled switch and force "
        "calls, timestamps of all entities in the compared walk, trace predicates on the implementation; calendar stream under 2 TZ.",
        "Trusted: see evidence.trusted_base; datetime.utcfromtimestamp/strftime/strptime = proleptic Gregorian arithmetic with "
        "fixed-width fields (Pure/Calendar.v), tied by correspondence; Property setters and dimension setters not modelled.",
        "DESIGN.md section 5 C19", TECH),
    "C13": (
        "Coq theorems on rose trees for the queue-and-level-counter algorithm of util/find.py (the model runs that algorithm on the "
        "tree materialised from the store): from a Section/Source root it returns exactly the root and the next `limit` levels, "
        "from a File/Block root exactly levels 1..limit (nothing for 0), filtered, each node once, in breadth-first order; a limit "
        "beyond the depth gives the whole subtree; the general queue invariant for every level, fuel and limit. parent / "
        "parent_source / parent_block / referring_* are modelled (breadth-first / depth-first scans with the code's membership "
        "tests) and tied by correspondence AND by a model-free oracle (plain recursion over containers) applied to the "
        "implementation's answers on trees with repeated names, all limits, filters, handles from creation / lookup / reopen.",
        "Trusted: see evidence.trusted_base; no theorem yet for parent/referring (correspondence + oracle only); trees deeper than "
        "48 levels are outside the model.",
        "DESIGN.md section 5 C13", TECH),
    "C18": (
        "Coq theorems over the micro-step machine of nixio/cmd/upgrade.py (collect_tasks with the >= early return, one step per "
        "task / property / alias dimension, each re-checking its object, version bump last): after ANY proper prefix the old "
        "version is still in the header; upgrading what an interrupted run left behind gives the file of the uninterrupted run; "
        "the result is the fully converted file with every property value kept; idempotent; nothing left for collect_tasks; an "
        "up-to-date file is untouched; the result passes C11's gate for writing. Library version translated from source. Tie: "
        "old-format files crafted with h5py (all value types, extras, alias/ticks/linked dimensions, with/without id), upgrade "
        "cut at EVERY write-reopening, abstract state read back with h5py and compared with the model; the result is opened for "
        "writing with nixio and values/units/ticks/data compared with the crafted content.",
        "Trusted: Coq kernel; interruption points = re-openings of the file for writing (a crash inside one property conversion is "
        "outside the property); h5py/HDF5 not modelled; the abstraction function (h5py reader) in harness/impl_upgrade.py.",
        "DESIGN.md section 5 C18", TECH),
    "C06": (
        "Coq theorems: per axis, for every window [a, a+n) and every integer index (wrap-around, bounds) and every slice "
        "(Python's slice.indices, any start/stop/step), DataView's coordinate transformation refuses exactly when NumPy refuses "
        "on an array of length n and otherwise selects NumPy's selection shifted by a; negative steps are always refused; lifted "
        "to every rank: for every well-formed window list and every index tuple (one ellipsis, padding) not longer than the rank, "
        "view[expr] addresses exactly the parent cells NumPy's expr addresses in the window. Tie: arrays holding their own flat "
        "offsets, reads/assignments through DataArray and through get_slice views compared with NumPy on an in-memory copy, with "
        "the model and with the Gallina specification. Known finding: surplus index items on a view are ignored.",
        "Trusted: Coq kernel; h5py's selection semantics for normalised tuples (exercised); negative window starts are outside the "
        "domain; text arrays and calibration are C01/C15.",
        "DESIGN.md section 5 C06", TECH),
    "C01": (
        "Coq theorems over the array model (shape, row-major cells as opaque bit patterns, element type): region assignment then "
        "region read returns the values in order and leaves every other cell, the shape and the cell count alone; whole write then "
        "read; the row-major enumeration lemma for every rank and shape (zero-length axes included); resize keeps surviving cells "
        "and fills new ones; no operation changes the element type. Tie: histories (whole/region writes with C06's expressions, "
        "append along every axis incl. mismatches, resize, reopen RO/RW) over 12 element types x 3 creation variants x random "
        "file/block/array compression triples, with all cells compared bit-for-bit after every step, plus dtype, len, size, "
        "read_direct, single-element reads, the shape of the whole read and the stored dataset's compression filter; the calls "
        "alternate between two Python objects of the array and every observation is made through both.",
        "Trusted: Coq kernel; h5py/libhdf5 (chunks, gzip, fill) exercised not proven; numpy casting not modelled (only values of the "
        "array's own type are written). The distinctness / in-range hypotheses of the region theorem are now derived for every "
        "selection within the extents (c01_region_inbounds, c01_selection_cells_distinct).",
        "DESIGN.md section 5 C01", TECH),
    "C15": (
        "Coq theorems over exact rationals: Horner evaluation (polyval) is c0 + c1 y + c2 y^2 + ...; every element of a calibrated "
        "read is the polynomial of the corresponding raw element (after subtracting the origin); slicing and calibration commute "
        "for every selection; without coefficients and with no/zero origin a read is the raw data. Tie: 9 numeric element types, "
        "values on a dyadic grid where float64 Horner is exact, whole reads compared with the model and the polynomial "
        "specification in Gallina, region/view/tagged reads and read_direct (array, view, tagged view) compared with the whole "
        "read, raw h5py read of the dataset after every set/clear step, result dtype; calibration assigned through either of two "
        "objects (whole numbers also as Python ints), views kept from the previous step read again.",
        "Trusted: Coq kernel; IEEE rounding outside the dyadic grid not modelled; 'calibration never alters the raw values' is true "
        "of the model by construction and only exercised.",
        "DESIGN.md section 5 C15", TECH),
    "C10": (
        "Coq theorems over the value-typing model (get_dtype with bool before int, create_property, values, extend_values): after "
        "ANY history every stored value has the type the property was created with; an accepted assignment reads back exactly, an "
        "accepted extend is old ++ new; a list with an element of another type is refused with a type error wherever that "
        "element stands; refused stores/appends/lookups/deletions leave every property unchanged; bool is not int; dictionary "
        "view: get-after-set, membership <=> one of the iterated keys, deletion removes that property only. Tie: histories over "
        "the four types incl. numpy scalars, extremes, NaN, non-ASCII text, unsupported objects, beyond-int64 integers, numpy "
        "arrays, None/[] clears, dict operations and reopen, with every property's type and values and the dict view compared "
        "after every step; trace predicates on the implementation (refused => unchanged, stored => read back).",
        "Trusted: Coq kernel; numpy conversion of same-typed values exact (exercised). Known finding: the scalar empty string "
        "clears the values.",
        "DESIGN.md section 5 C10", TECH),
    "C16": (
        "Coq theorems over the table model (ordered named typed columns, rows of opaque cells): write_cell changes exactly the "
        "addressed cell; write_rows leaves unaddressed rows alone and stores the j-th row at index[j]; append_rows is old ++ new; "
        "append_column adds a last column with the given values and keeps every existing cell; write_column (index 0 included) "
        "sets that column and no other; each is refused exactly on wrong lengths / indices / existing names, a refused operation "
        "leaves the table as it was; every reachable table is well-formed; by-name addressing is by-position addressing. Tie: "
        "histories over schemas of 1-6 columns of 6 element types, four creation variants, all write/append calls with valid and "
        "invalid arguments, reopen, re-creation under the same name; after every step the whole table, names, types, counts, "
        "identity and four read paths are compared with the model; trace predicates name the failing step.",
        "Trusted: Coq kernel; cells are opaque (numpy casting between types not modelled; only values of the column's own type "
        "are written); h5py compound datasets exercised, not modelled; units / column definitions are not part of the model.",
        "DESIGN.md section 5 C16", TECH),
    "C20": (
        "Coq theorems over the store model with H5Ocopy as the appended address-shifted copy of the source store (within a file "
        "or across files): in ANY store that still holds the shifted source nodes, the walk of the copy of every copyable kind "
        "(block, array, tag, multi-tag, section to any depth, property) equals the walk of the source as it was (complete, "
        "recursive); a link a->b of the source is the link copy(a)->copy(b) under the same name and order, and no link of the "
        "copy leads to a node that existed before (internal links); the destination's nodes and, until the copy is linked in, "
        "the file's walk are untouched; writes outside the copy and new nodes keep the copy, writes to the copy and new nodes "
        "keep every old walk (independence, both directions); fresh ids are pairwise distinct, differ from every id generated "
        "before, leave other attributes / link targets / order alone and rename id-named links along; the API call on an existing "
        "destination name fails returning the state it was given. Tie: histories with up to 4 copy calls of every kind, both id "
        "policies, with/without a new name, recursive or not, interleaved with all other operations, compared with the model "
        "after every step (api_copy incl. the shallow section copy and the return-value lookup); model-free predicates on the "
        "implementation: copy walk = source walk modulo name and an injective renaming onto new ids, returned entity is the "
        "copy, internal links of block copies followed as HDF5 objects, refused copy leaves the file's walk, one call never "
        "changes both sides of a pair; plus a cross-file phase on real files (no model). Known finding: kept ids inside one file.",
        "Trusted: Coq kernel; H5Ocopy = shifted append (sharing preserved, every hard link followed) is exercised, not proven; "
        "cross-file copies are tied by the predicates only; data frames are copied by the same H5Group.copy but are not part "
        "of the store model (C16 covers their content).",
        "DESIGN.md section 5 C20", TECH),
    "C14": (
        "Coq theorems over the validator model (check_file on an abstract description of arrays with their descriptors, tags, "
        "multi-tags and other entities; unit classification from the regenerated unit tables): (1) on every consistent file - "
        "one descriptor per data dimension, matching tick/label counts, strictly increasing ticks, positive intervals, atomic SI "
        "dimension units, tag position/extent/unit lengths matching the references with convertible units, name/type/date "
        "present - every object's report is empty; (2) for every catalogue error, an exact characterisation of when it is in an "
        "object's report: entity errors, each of the seven descriptor errors of dimension idx (from the idx-th descriptor against "
        "the idx-th extent), missing/surplus descriptors, all eight tag errors and all eight multi-tag errors. Tie: files built "
        "from recipes through the public API (+ h5py for what the API refuses to create), with 0/1/2 injected catalogue "
        "inconsistencies at random eligible objects, closed, reopened read-only and validated; per-object error sets compared "
        "with the model exactly and with what was injected (untouched objects silent, touched objects reported, no crash).",
        "Trusted: Coq kernel; the recipe builder; 'no ID set' is not modelled (an entity without id cannot be opened through the "
        "API at all); position/extent/unit length checks are scoped to tags with references, as in the property text; feature "
        "checks and warnings are outside the property's catalogue.",
        "DESIGN.md section 5 C14", TECH),
    "C08": (
        "Coq theorems over the tagging model (slice computation of Tag / MultiTag, unit scaling from the regenerated unit "
        "tables, per-dimension index arithmetic of C07, DataView validity): for every descriptor kind, every position, extent, "
        "unit and stop rule, a slice a:b returned for an axis holds EXACTLY the stored samples whose coordinate lies in "
        "[start, stop] resp. [start, stop) with start = position*scaling, stop = start + extent*scaling (missing / "
        "non-positive extent: the exact position; axes beyond the tag's position: whole); lifted to every axis of the data a "
        "tag, a multi-tag row or a tagged feature returns; an invalid (empty) view or an out-of-bounds error has a reason - "
        "some axis without a stored sample in the region, or a region containing a sample position beyond the stored ones - "
        "never other data; indexed / untagged features return entry i / everything. Hypothesis inherited from C07: positions "
        "outside the float-tolerance band of a sample. Tie: generated arrays (rank 1-3, all descriptor mixes) holding their own "
        "offsets, tags and multi-tags (1-D/2-D positions), regions on/between/outside samples, all prefix pairs of four SI "
        "families, both stop rules, three feature link types; results compared with the model in Coq and with a model-free "
        "oracle on exact rationals; the generator keeps every float product the implementation performs exact.",
        "Trusted: Coq kernel; float arithmetic of the implementation outside the exactness filter is not modelled; the "
        "isclose band is C07's known finding; h5py reads of the computed slices are C06.",
        "DESIGN.md section 5 C08", TECH),
    "C17": (
        "Coq theorems over a durability machine (live content; on-disk content unspecified after any write, made equal to the "
        "live content by the HDF5 flush and close): for EVERY history of writes, reads and earlier flushes, flush() followed by "
        "reads only, or close(), and then a kill leaves exactly the content the history's writes produced. File.flush / "
        "File.close are the call sequences translated from nixio/file.py by ast on every run (fail closed), so the theorems are "
        "re-checked against what the code says now. Tie / experiment: writer processes run generated histories plus compressed "
        "and uncompressed arrays grown by appends, save the state aside, call flush() or close() and SIGKILL themselves; fresh "
        "processes open the file read-only and read-write and compare the canonical walk and every array's content (flush points "
        "with an empty / emptied file included); the writers' histories are also compared with the store model.",
        "PARTIAL by nature: what H5Fflush/H5Fclose do to the bytes on disk (metadata cache, chunk cache, the operating system's "
        "page cache under SIGKILL - not power loss) is an assumption of the model, exercised by the experiment on this file "
        "system, not proven; kills BETWEEN a write and the flush are outside the property.",
        "DESIGN.md section 5 C17", TECH),
}

PENDING_REASON = ("check not built yet in this revision (work in progress: the property is meant to be decided by Coq "
                  "proof + correspondence as described in DESIGN.md section 5; it is listed here only until its check exists)")


def main():
    ids = ["C%02d" % i for i in range(1, 21)]
    checks = []
    for i in ids:
        if i not in CLAIMED:
            continue
        text, note, ref, tech = CLAIMED[i]
        checks.append({
            "property_id": i,
            "quick_cmd": "./check %s --tier quick" % i,
            "thorough_cmd": "./check %s --tier thorough" % i,
            "evidence_file": "/verif/evidence/%s.json" % i,
            "replay_cmd_template": "./check %s --replay {path}" % i,
            "engine": "coq-model",
            "level_claimed": {"category": "proof", "text": text, "design_ref": ref},
            "level_note": note,
            "technique": tech,
        })
    man = {
        "version": 1,
        "setup_cmd": "./setup.sh",
        "hooks": {
            "guard": "G_NODE_NIXPY_VERIF",
            "enable": "no source hooks are needed: checks run the unmodified package with PYTHONPATH=/repo; the clock and "
                      "the upgrade interruption are patched from the harness process. G_NODE_NIXPY_VERIF=1 is exported by "
                      "the harness for completeness.",
            "baseline_off_cmd": BASELINE,
            "source_commits": [],
            "add_only": True,
        },
        "engines": [
            {"name": "coq-model", "path": "coq/", "serves_properties": [c["property_id"] for c in checks],
             "kind_free_text": "Gallina models (Pure/, H5/, Nix/), proofs (Proofs/), property theorems (Props/Cxx.v), "
                               "Gen/*.v regenerated from /repo by harness/translate.py on every run"},
            {"name": "translator", "path": "harness/translate.py", "serves_properties": ["C09"],
             "kind_free_text": "fail-closed extraction of tables, regexes, constants and fact tables from the current source"},
            {"name": "impl-runner", "path": "harness/", "serves_properties": [c["property_id"] for c in checks],
             "kind_free_text": "runs the real nixio on generated inputs/histories; cases are evaluated in Coq (coqc vm_compute) "
                               "against the model and the executable specification"},
        ],
        "checks": checks,
        "notes": "fix: commits in /repo (genuine defects repaired) are listed in known_findings.json as 'fixed' entries.",
        "not_applicable": [{"property_id": i, "reason": PENDING_REASON} for i in ids if i not in CLAIMED],
    }
    with open(os.path.join(VERIF, "MANIFEST.json"), "w") as f:
        json.dump(man, f, indent=1)
    print("MANIFEST.json: %d checks, %d not claimed" % (len(checks), len(man["not_applicable"])))


main()
