(* Pure/Array.v -- the data of a DataArray: a shape, a row-major list of cells (bit patterns;
   the model never interprets them), an element type that no operation changes.
   Operations as in nixio/data_set.py / h5dataset.py: whole write, region write through a
   normalised selection, resize (HDF5: cells whose index survives keep their value, new cells are
   the fill value 0), append along an axis.  Calibration (C15) is applied on read. *)
From Coq Require Import ZArith List Bool QArith.
From NixV Require Import Base.Prelude Pure.Slices.
Import ListNotations.
Open Scope Z_scope.

Record arr := mkArr { a_shape : list Z; a_cells : list Z; a_dtype : N }.

Fixpoint set_nth (l : list Z) (n : nat) (v : Z) : list Z :=
  match l, n with
  | [], _ => []
  | _ :: t, O => v :: t
  | x :: t, S k => x :: set_nth t k v
  end.
Fixpoint write_offsets (cells : list Z) (offs vals : list Z) : list Z :=
  match offs, vals with
  | o :: orest, v :: vrest => write_offsets (set_nth cells (Z.to_nat o) v) orest vrest
  | _, _ => cells
  end.
Definition read_offsets (cells : list Z) (offs : list Z) : list Z :=
  map (fun o => nth (Z.to_nat o) cells 0) offs.

Definition zrange0 (n : Z) : list Z := map Z.of_nat (seq 0 (Z.to_nat n)).
(* all multi-indices of a shape, row-major *)
Definition all_indices (shape : list Z) : list (list Z) := product (map zrange0 shape).

Definition offsets_of (shape : list Z) (sels : list axsel) : list Z := snd (gather shape sels).

(* dataset[sel] = vals  (vals already broadcast to the selection, row-major) *)
Definition write_region (a : arr) (sels : list axsel) (vals : list Z) : arr :=
  mkArr (a_shape a) (write_offsets (a_cells a) (offsets_of (a_shape a) sels) vals) (a_dtype a).
Definition read_region (a : arr) (sels : list axsel) : list Z :=
  read_offsets (a_cells a) (offsets_of (a_shape a) sels).
Definition write_all (a : arr) (vals : list Z) : arr := mkArr (a_shape a) vals (a_dtype a).
Definition read_all (a : arr) : list Z := a_cells a.

(* dataset.resize(new_shape) *)
Definition in_bounds (shape idx : list Z) : bool :=
  Nat.eqb (length shape) (length idx) && forallb (fun p => (0 <=? snd p) && (snd p <? fst p)) (combine shape idx).
Definition resize (a : arr) (new_shape : list Z) : arr :=
  mkArr new_shape
        (map (fun idx => if in_bounds (a_shape a) idx
                         then nth (Z.to_nat (flat_index (a_shape a) idx)) (a_cells a) 0 else 0)
             (all_indices new_shape))
        (a_dtype a).

(* DataSet.append(data, axis): rank and off-axis extents must match; enlarge; write the slab *)
Fixpoint set_nth_Z (l : list Z) (n : nat) (v : Z) : list Z := set_nth l n v.
Definition append (a : arr) (dshape : list Z) (data : list Z) (axis : nat) : option arr :=
  if negb (Nat.eqb (length (a_shape a)) (length dshape)) then None
  else if existsb (fun p => negb (Nat.eqb (fst p) axis) && negb (Z.eqb (fst (snd p)) (snd (snd p))))
                  (combine (seq 0 (length dshape)) (combine (a_shape a) dshape)) then None
  else
    let old := a_shape a in
    let enlarged := map (fun p => if Nat.eqb (fst p) axis then fst (snd p) + snd (snd p) else fst (snd p))
                        (combine (seq 0 (length dshape)) (combine old dshape)) in
    let sels := map (fun p => if Nat.eqb (fst p) axis
                              then ARange (fst (snd p)) (fst (snd p) + snd (snd p)) 1
                              else ARange 0 (snd (snd p)) 1)
                    (combine (seq 0 (length dshape)) (combine old dshape)) in
    Some (write_region (resize a enlarged) sels data).

(* ---- calibration (C15): c0 + c1 (x - o) + c2 (x - o)^2 + ...  by Horner, over exact rationals *)
Open Scope Q_scope.
Fixpoint horner (coeffs : list Q) (x : Q) : Q :=
  match coeffs with
  | [] => 0
  | c :: r => c + x * horner r x
  end.
Fixpoint power_sum (coeffs : list Q) (x : Q) (k : nat) : Q :=
  match coeffs with
  | [] => 0
  | c :: r => c * x ^ Z.of_nat k + power_sum r x (S k)
  end.
(* DataArray._read_data: if coefficients or a non-zero origin: subtract the origin (0 if missing),
   then polyval if there are coefficients *)
Definition calibrate (coeffs : list Q) (origin : option Q) (x : Q) : Q :=
  let o := match origin with Some v => v | None => 0 end in
  match coeffs with
  | [] => x - o
  | _ => horner coeffs (x - o)
  end.
Definition is_calibrated (coeffs : list Q) (origin : option Q) : bool :=
  negb (Nat.eqb (length coeffs) 0) || match origin with Some v => negb (Qeq_bool v 0) | None => false end.
Definition read_calibrated (coeffs : list Q) (origin : option Q) (raw : list Q) : list Q :=
  if is_calibrated coeffs origin then map (calibrate coeffs origin) raw else raw.
