(* Proofs/ArrayProofs.v -- C01: what region writes, whole writes and resizes do to the cells;
   row-major enumeration; C15: Horner = polynomial, slicing commutes with calibration. *)
From Coq Require Import ZArith List Bool Lia QArith Qpower.
From NixV Require Import Base.Prelude Pure.Slices Pure.Array.
Import ListNotations.
Open Scope Z_scope.

(* ---- single cell updates *)
Lemma set_nth_length l n v : length (set_nth l n v) = length l.
Proof. revert n; induction l as [|x l IH]; intros [|n]; cbn; auto. Qed.
Lemma nth_set_nth_same l n v : (n < length l)%nat -> nth n (set_nth l n v) 0 = v.
Proof. revert n; induction l as [|x l IH]; intros [|n] H; cbn in *; try lia; auto. apply IH. lia. Qed.
Lemma nth_set_nth_other l n m v : n <> m -> nth m (set_nth l n v) 0 = nth m l 0.
Proof. revert n m; induction l as [|x l IH]; intros [|n] [|m] H; cbn; auto; try congruence. Qed.

(* ---- region writes *)
Lemma write_offsets_length : forall offs vals cells, length (write_offsets cells offs vals) = length cells.
Proof.
  induction offs as [|o offs IH]; intros [|v vals] cells; cbn; auto. rewrite IH. apply set_nth_length.
Qed.

(* a cell that is not addressed keeps its value *)
Lemma write_offsets_frame : forall offs vals cells k,
  (forall o, In o offs -> Z.to_nat o <> k) -> nth k (write_offsets cells offs vals) 0 = nth k cells 0.
Proof.
  induction offs as [|o offs IH]; intros [|v vals] cells k H; cbn; auto.
  rewrite IH by (intros o' Ho'; apply H; right; exact Ho').
  apply nth_set_nth_other. apply H. left. reflexivity.
Qed.

(* what was written to distinct, existing cells is what is read back, in order *)
Lemma read_after_write : forall offs vals cells,
  NoDup (map Z.to_nat offs) -> (forall o, In o offs -> (Z.to_nat o < length cells)%nat) ->
  length vals = length offs ->
  read_offsets (write_offsets cells offs vals) offs = vals.
Proof.
  induction offs as [|o offs IH]; intros [|v vals] cells Hnd Hin Hl; cbn in *; try discriminate; auto.
  inversion Hnd as [|x l Hnot Hnd']; subst. f_equal.
  - rewrite write_offsets_frame.
    + apply nth_set_nth_same. apply Hin. left. reflexivity.
    + intros o' Ho' E. apply Hnot. rewrite <- E. apply in_map. exact Ho'.
  - apply IH; [exact Hnd' | | lia].
    intros o' Ho'. rewrite set_nth_length. apply Hin. right. exact Ho'.
Qed.

Theorem region_frame a sels vals k :
  (forall o, In o (offsets_of (a_shape a) sels) -> Z.to_nat o <> k) ->
  nth k (a_cells (write_region a sels vals)) 0 = nth k (a_cells a) 0.
Proof. intros H. unfold write_region. cbn. apply write_offsets_frame. exact H. Qed.

Theorem read_after_write_region a sels vals :
  NoDup (map Z.to_nat (offsets_of (a_shape a) sels)) ->
  (forall o, In o (offsets_of (a_shape a) sels) -> (Z.to_nat o < length (a_cells a))%nat) ->
  length vals = length (offsets_of (a_shape a) sels) ->
  read_region (write_region a sels vals) sels = vals /\
  a_shape (write_region a sels vals) = a_shape a /\
  length (a_cells (write_region a sels vals)) = length (a_cells a).
Proof.
  intros H1 H2 H3. unfold read_region, write_region. cbn. split; [|split].
  - apply read_after_write; assumption.
  - reflexivity.
  - apply write_offsets_length.
Qed.

Theorem write_all_read_all a vals : read_all (write_all a vals) = vals /\ a_shape (write_all a vals) = a_shape a.
Proof. split; reflexivity. Qed.

(* the element type never changes *)
Theorem type_fixed a :
  (forall v, a_dtype (write_all a v) = a_dtype a) /\
  (forall s v, a_dtype (write_region a s v) = a_dtype a) /\
  (forall s, a_dtype (resize a s) = a_dtype a) /\
  (forall ds d ax a', append a ds d ax = Some a' -> a_dtype a' = a_dtype a).
Proof.
  repeat split; try reflexivity. intros ds d ax a' H. unfold append in H.
  destruct (negb _); [discriminate|]. destruct (existsb _ _); [discriminate|]. injection H as <-. reflexivity.
Qed.

(* ---- row-major enumeration *)
Lemma zrange0_length n : length (zrange0 n) = Z.to_nat n.
Proof. unfold zrange0. rewrite map_length, seq_length. reflexivity. Qed.
Lemma zrange0_nth n i : (i < Z.to_nat n)%nat -> nth_error (zrange0 n) i = Some (Z.of_nat i).
Proof.
  intros H. unfold zrange0. rewrite nth_error_map.
  rewrite (nth_error_nth' _ 0%nat) by (rewrite seq_length; exact H). rewrite seq_nth by exact H. reflexivity.
Qed.

Lemma flat_map_block {A B} (f : A -> list B) m : forall l i k x,
  (forall y, In y l -> length (f y) = m) -> nth_error l i = Some x -> (k < m)%nat ->
  nth_error (flat_map f l) (i * m + k) = nth_error (f x) k.
Proof.
  induction l as [|y l IH]; intros i k x Hm Hi Hk; [destruct i; discriminate|].
  cbn [flat_map]. destruct i as [|i]; cbn in Hi.
  - injection Hi as ->. cbn. rewrite nth_error_app1 by (rewrite Hm by (left; reflexivity); exact Hk). reflexivity.
  - rewrite nth_error_app2 by (rewrite Hm by (left; reflexivity); cbn; lia).
    rewrite Hm by (left; reflexivity). replace (S i * m + k - m)%nat with (i * m + k)%nat by (cbn; lia).
    apply IH; [intros z Hz; apply Hm; right; exact Hz | exact Hi | exact Hk].
Qed.
Lemma flat_map_length_block {A B} (f : A -> list B) m l :
  (forall y, In y l -> length (f y) = m) -> length (flat_map f l) = (length l * m)%nat.
Proof.
  induction l as [|y l IH]; intros H; [reflexivity|]. cbn [flat_map length]. rewrite app_length, IH.
  - rewrite H by (left; reflexivity). lia.
  - intros z Hz. apply H. right. exact Hz.
Qed.

Definition nonneg (shape : list Z) : Prop := Forall (fun x => 0 <= x) shape.
Lemma sizeZ_nonneg shape : nonneg shape -> 0 <= sizeZ shape.
Proof. induction 1; cbn; [lia|]. apply Z.mul_nonneg_nonneg; assumption. Qed.

Lemma all_indices_length shape : nonneg shape -> length (all_indices shape) = Z.to_nat (sizeZ shape).
Proof.
  unfold all_indices. induction 1 as [|l sr Hl Hs IH]; [reflexivity|].
  cbn [map product sizeZ].
  rewrite (flat_map_length_block _ (Z.to_nat (sizeZ sr))).
  - rewrite zrange0_length. rewrite Z2Nat.inj_mul by (try lia; apply sizeZ_nonneg; exact Hs). reflexivity.
  - intros y _. rewrite map_length. exact IH.
Qed.

Lemma in_bounds_cons l sr i ir : in_bounds (l :: sr) (i :: ir) = true <-> (0 <= i < l) /\ in_bounds sr ir = true.
Proof.
  unfold in_bounds. cbn [length combine forallb fst snd]. rewrite !andb_true_iff, !Nat.eqb_eq, Z.leb_le, Z.ltb_lt.
  split; intro H; intuition lia.
Qed.
Lemma in_bounds_nil_l idx : in_bounds [] idx = true -> idx = [].
Proof. unfold in_bounds. destruct idx; [reflexivity|]. cbn. discriminate. Qed.

Lemma flat_index_range shape : nonneg shape -> forall idx, in_bounds shape idx = true ->
  0 <= flat_index shape idx < sizeZ shape.
Proof.
  induction 1 as [|l sr Hl Hs IH]; intros idx Hb.
  - apply in_bounds_nil_l in Hb. subst. cbn. lia.
  - destruct idx as [|i ir]; [cbn in Hb; discriminate|].
    apply in_bounds_cons in Hb. destruct Hb as [Hi Hb]. specialize (IH ir Hb). cbn [flat_index sizeZ]. nia.
Qed.

(* the k-th multi-index of the row-major enumeration is the one whose offset is k *)
Theorem row_major shape : nonneg shape -> forall idx, in_bounds shape idx = true ->
  nth_error (all_indices shape) (Z.to_nat (flat_index shape idx)) = Some idx.
Proof.
  induction 1 as [|l sr Hl Hs IH]; intros idx Hb.
  - apply in_bounds_nil_l in Hb. subst. reflexivity.
  - destruct idx as [|i ir]; [cbn in Hb; discriminate|].
    apply in_bounds_cons in Hb. destruct Hb as [Hi Hb].
    pose proof (flat_index_range sr Hs ir Hb) as Hr. pose proof (sizeZ_nonneg sr Hs) as Hsz.
    unfold all_indices. cbn [map product flat_index]. fold (all_indices sr).
    replace (Z.to_nat (i * sizeZ sr + flat_index sr ir))
      with (Z.to_nat i * Z.to_nat (sizeZ sr) + Z.to_nat (flat_index sr ir))%nat
      by (rewrite Z2Nat.inj_add, Z2Nat.inj_mul by nia; reflexivity).
    rewrite (flat_map_block _ (Z.to_nat (sizeZ sr)) _ _ _ i).
    + rewrite nth_error_map, (IH ir Hb). reflexivity.
    + intros y _. rewrite map_length. apply all_indices_length. exact Hs.
    + rewrite zrange0_nth by lia. f_equal. lia.
    + lia.
Qed.

(* resize: a cell whose index exists before and after keeps its value; a new cell is 0 *)
Theorem resize_keeps a new_shape idx : nonneg new_shape -> in_bounds new_shape idx = true ->
  nth (Z.to_nat (flat_index new_shape idx)) (a_cells (resize a new_shape)) 0 =
  (if in_bounds (a_shape a) idx then nth (Z.to_nat (flat_index (a_shape a) idx)) (a_cells a) 0 else 0) /\
  a_shape (resize a new_shape) = new_shape.
Proof.
  intros Hn Hb. split; [|reflexivity]. unfold resize. cbn [a_cells].
  pose proof (row_major new_shape Hn idx Hb) as R.
  set (f := fun idx0 => if in_bounds (a_shape a) idx0 then nth (Z.to_nat (flat_index (a_shape a) idx0)) (a_cells a) 0 else 0).
  assert (E : nth_error (map f (all_indices new_shape)) (Z.to_nat (flat_index new_shape idx)) = Some (f idx)).
  { rewrite nth_error_map, R. reflexivity. }
  apply nth_error_nth with (d := 0) in E. exact E.
Qed.

(* ---- C15 *)
Open Scope Q_scope.
Lemma horner_power_sum coeffs x : forall k, x ^ Z.of_nat k * horner coeffs x == power_sum coeffs x k.
Proof.
  induction coeffs as [|c r IH]; intros k; cbn [horner power_sum]; [ring|].
  rewrite <- (IH (S k)). rewrite Nat2Z.inj_succ.
  assert (P : x ^ Z.succ (Z.of_nat k) == x ^ Z.of_nat k * x).
  { unfold Z.succ. rewrite Qpower_plus' by lia. change (x ^ 1) with (Qpower_positive x 1). cbn. ring. }
  rewrite P. ring.
Qed.
(* Horner evaluation is the polynomial c0 + c1 y + c2 y^2 + ... *)
Theorem horner_is_polynomial coeffs y : horner coeffs y == power_sum coeffs y 0.
Proof. rewrite <- (horner_power_sum coeffs y 0). cbn. ring. Qed.

(* calibration is applied element by element: reading a selection and calibrating it is
   calibrating and then selecting (for every list of selected positions) *)
Theorem calibration_commutes_with_selection coeffs origin (raw : list Q) (pos : list nat) d :
  read_calibrated coeffs origin (map (fun p => nth p raw d) pos) =
  map (fun p => nth p (read_calibrated coeffs origin raw) (if is_calibrated coeffs origin then calibrate coeffs origin d else d)) pos.
Proof.
  unfold read_calibrated. destruct (is_calibrated coeffs origin); [|reflexivity].
  rewrite map_map. apply map_ext. intros p. rewrite map_nth. reflexivity.
Qed.
(* without calibration a read returns the raw values *)
Theorem no_calibration_identity raw : read_calibrated [] None raw = raw /\ read_calibrated [] (Some 0) raw = raw.
Proof. split; reflexivity. Qed.
