(* Proofs/StoreLemmas.v -- frame / last-write-wins lemmas of the store primitives. *)
From NixV Require Import Base.Prelude H5.Store.
From Coq Require Import Lia.
Open Scope N_scope.

Lemma tok_eqb_refl t : tok_eqb t t = true.
Proof. destruct t; cbn; [apply streq_refl | apply N.eqb_refl]. Qed.
Lemma tok_eqb_eq a b : tok_eqb a b = true <-> a = b.
Proof.
  destruct a, b; cbn; split; intro H; try discriminate; try congruence.
  - apply streq_eq in H. congruence.
  - injection H as ->. apply streq_refl.
  - apply N.eqb_eq in H. congruence.
  - injection H as ->. apply N.eqb_refl.
Qed.
Lemma tok_eqb_neq a b : tok_eqb a b = false <-> a <> b.
Proof.
  split; intro H.
  - intro E. apply tok_eqb_eq in E. congruence.
  - destruct (tok_eqb a b) eqn:E; [apply tok_eqb_eq in E; contradiction | reflexivity].
Qed.
Lemma streq_neq a b : streq a b = false <-> a <> b.
Proof.
  split; intro H.
  - intro E. apply streq_eq in E. congruence.
  - destruct (streq a b) eqn:E; [apply streq_eq in E; contradiction | reflexivity].
Qed.

(* ---- upd_nth *)
Lemma upd_nth_length {A} (l : list A) n f : length (upd_nth l n f) = length l.
Proof. revert n; induction l as [|x l IH]; intros [|n]; cbn; try reflexivity; f_equal; apply IH. Qed.

Lemma nth_upd_nth_same {A} (l : list A) n f d : (n < length l)%nat -> nth n (upd_nth l n f) d = f (nth n l d).
Proof.
  revert n; induction l as [|x l IH]; intros [|n] H; cbn in *; try lia; try reflexivity.
  apply IH. lia.
Qed.
Lemma nth_upd_nth_other {A} (l : list A) n m f d : n <> m -> nth m (upd_nth l n f) d = nth m l d.
Proof.
  revert n m; induction l as [|x l IH]; intros [|n] [|m] H; cbn; try reflexivity; try congruence.
  apply IH. congruence.
Qed.

Lemma node_at_upd_same s a f : (a < length (nodes s))%nat -> node_at (upd_node s a f) a = f (node_at s a).
Proof. intros H. unfold node_at, upd_node. cbn. apply nth_upd_nth_same. exact H. Qed.
Lemma node_at_upd_other s a b f : a <> b -> node_at (upd_node s a f) b = node_at s b.
Proof. intros H. unfold node_at, upd_node. cbn. apply nth_upd_nth_other. exact H. Qed.
Lemma upd_node_length s a f : length (nodes (upd_node s a f)) = length (nodes s).
Proof. unfold upd_node. cbn. apply upd_nth_length. Qed.

(* out of range: the default node; an update there does nothing *)
Lemma upd_nth_oob {A} (l : list A) n f : (length l <= n)%nat -> upd_nth l n f = l.
Proof.
  revert n; induction l as [|x l IH]; intros [|n] H; cbn in *; try reflexivity; try lia.
  f_equal. apply IH. lia.
Qed.

(* ---- association lists *)
Lemma assoc_get_set_same {V} k (v : V) l : assoc_get k (assoc_set k v l) = Some v.
Proof.
  induction l as [|[k' v'] l IH]; cbn.
  - rewrite streq_refl. reflexivity.
  - destruct (streq k' k) eqn:E; cbn; rewrite E; [reflexivity | exact IH].
Qed.
Lemma assoc_get_set_other {V} k k' (v : V) l : k' <> k -> assoc_get k' (assoc_set k v l) = assoc_get k' l.
Proof.
  intros H. induction l as [|[k2 v2] l IH]; cbn.
  - assert (E : streq k k' = false) by (apply streq_neq; congruence). rewrite E. reflexivity.
  - destruct (streq k2 k) eqn:E; cbn.
    + apply streq_eq in E. subst k2.
      assert (E2 : streq k k' = false) by (apply streq_neq; congruence). rewrite E2. reflexivity.
    + destruct (streq k2 k'); [reflexivity | exact IH].
Qed.
Lemma assoc_get_del_same {V} k (l : list (str * V)) : assoc_get k (assoc_del k l) = None.
Proof.
  induction l as [|[k' v'] l IH]; cbn; [reflexivity|].
  destruct (streq k' k) eqn:E; [exact IH | cbn; rewrite E; exact IH].
Qed.
Lemma assoc_get_del_other {V} k k' (l : list (str * V)) : k' <> k -> assoc_get k' (assoc_del k l) = assoc_get k' l.
Proof.
  intros H. induction l as [|[k2 v2] l IH]; cbn; [reflexivity|].
  destruct (streq k2 k) eqn:E.
  - apply streq_eq in E. subst k2.
    assert (E2 : streq k k' = false) by (apply streq_neq; congruence). rewrite E2. exact IH.
  - cbn. destruct (streq k2 k'); [reflexivity | exact IH].
Qed.

(* ---- attributes: last write wins, everything else keeps its value *)
Lemma get_attr_set_same s a k v : (a < length (nodes s))%nat ->
  get_attr (set_attr s a k v) a k = v.
Proof.
  intros H. unfold get_attr, set_attr. rewrite node_at_upd_same by exact H. cbn.
  destruct v; [apply assoc_get_set_same | apply assoc_get_del_same].
Qed.
Lemma get_attr_set_other s a k v a' k' : (a' <> a \/ k' <> k) ->
  get_attr (set_attr s a k v) a' k' = get_attr s a' k'.
Proof.
  intros H. unfold get_attr, set_attr.
  destruct (Nat.eq_dec a a') as [->|Ne].
  - destruct H as [H|H]; [congruence|].
    destruct (Nat.lt_ge_cases a' (length (nodes s))) as [L|L].
    + rewrite node_at_upd_same by exact L. cbn.
      destruct v; [apply assoc_get_set_other | apply assoc_get_del_other]; exact H.
    + unfold upd_node, node_at. cbn. rewrite upd_nth_oob by exact L. reflexivity.
  - rewrite node_at_upd_other by exact Ne. reflexivity.
Qed.
Lemma links_set_attr s a k v b : links (node_at (set_attr s a k v) b) = links (node_at s b).
Proof.
  unfold set_attr. destruct (Nat.eq_dec a b) as [->|Ne].
  - destruct (Nat.lt_ge_cases b (length (nodes s))) as [L|L].
    + rewrite node_at_upd_same by exact L. reflexivity.
    + unfold upd_node, node_at. cbn. rewrite upd_nth_oob by exact L. reflexivity.
  - rewrite node_at_upd_other by exact Ne. reflexivity.
Qed.
Lemma length_set_attr s a k v : length (nodes (set_attr s a k v)) = length (nodes s).
Proof. apply upd_node_length. Qed.

(* ---- links *)
Lemma link_get_del_same k l : link_get k (link_del k l) = None.
Proof.
  induction l as [|[k' a] l IH]; cbn; [reflexivity|].
  destruct (tok_eqb k' k) eqn:E; cbn; [exact IH | rewrite E; exact IH].
Qed.
Lemma link_get_del_other k k' l : k' <> k -> link_get k' (link_del k l) = link_get k' l.
Proof.
  intros H. induction l as [|[k2 a] l IH]; cbn; [reflexivity|].
  destruct (tok_eqb k2 k) eqn:E; cbn.
  - apply tok_eqb_eq in E. subst k2.
    assert (E2 : tok_eqb k k' = false) by (apply tok_eqb_neq; congruence). rewrite E2. exact IH.
  - destruct (tok_eqb k2 k'); [reflexivity | exact IH].
Qed.
Lemma link_get_app k l1 l2 :
  link_get k (l1 ++ l2) = match link_get k l1 with Some a => Some a | None => link_get k l2 end.
Proof.
  induction l1 as [|[k' a] l1 IH]; cbn; [reflexivity|].
  destruct (tok_eqb k' k); [reflexivity | exact IH].
Qed.

Lemma attrs_set_links s a l b : attrs (node_at (set_links s a l) b) = attrs (node_at s b).
Proof.
  unfold set_links. destruct (Nat.eq_dec a b) as [->|Ne].
  - destruct (Nat.lt_ge_cases b (length (nodes s))) as [L|L].
    + rewrite node_at_upd_same by exact L. reflexivity.
    + unfold upd_node, node_at. cbn. rewrite upd_nth_oob by exact L. reflexivity.
  - rewrite node_at_upd_other by exact Ne. reflexivity.
Qed.
Lemma links_set_links_same s a l : (a < length (nodes s))%nat -> links (node_at (set_links s a l) a) = l.
Proof. intros H. unfold set_links. rewrite node_at_upd_same by exact H. reflexivity. Qed.
Lemma links_set_links_other s a l b : a <> b -> links (node_at (set_links s a l) b) = links (node_at s b).
Proof. intros H. unfold set_links. rewrite node_at_upd_other by exact H. reflexivity. Qed.

(* the alias lemma: a link created to address x resolves to x *)
Lemma child_add_link_same s a k x : (a < length (nodes s))%nat -> child (add_link s a k x) a k = Some x.
Proof.
  intros H. unfold child, add_link. rewrite links_set_links_same by exact H.
  rewrite link_get_app, link_get_del_same. cbn. rewrite tok_eqb_refl. reflexivity.
Qed.
Lemma child_add_link_other s a k x b k' : (b <> a \/ k' <> k) ->
  child (add_link s a k x) b k' = child s b k'.
Proof.
  intros H. unfold child, add_link. destruct (Nat.eq_dec a b) as [->|Ne].
  - destruct H as [H|H]; [congruence|].
    destruct (Nat.lt_ge_cases b (length (nodes s))) as [L|L].
    + rewrite links_set_links_same by exact L. rewrite link_get_app, link_get_del_other by exact H.
      destruct (link_get k' (links (node_at s b))); [reflexivity|]. cbn.
      assert (E : tok_eqb k k' = false) by (apply tok_eqb_neq; congruence). rewrite E. reflexivity.
    + unfold set_links, upd_node, node_at. cbn. rewrite upd_nth_oob by exact L. reflexivity.
  - rewrite links_set_links_other by exact Ne. reflexivity.
Qed.
Lemma child_del_link_same s a k : (a < length (nodes s))%nat -> child (del_link s a k) a k = None.
Proof.
  intros H. unfold child, del_link. rewrite links_set_links_same by exact H. apply link_get_del_same.
Qed.
Lemma child_del_link_other s a k b k' : (b <> a \/ k' <> k) -> child (del_link s a k) b k' = child s b k'.
Proof.
  intros H. unfold child, del_link. destruct (Nat.eq_dec a b) as [->|Ne].
  - destruct H as [H|H]; [congruence|].
    destruct (Nat.lt_ge_cases b (length (nodes s))) as [L|L].
    + rewrite links_set_links_same by exact L. apply link_get_del_other. exact H.
    + unfold set_links, upd_node, node_at. cbn. rewrite upd_nth_oob by exact L. reflexivity.
  - rewrite links_set_links_other by exact Ne. reflexivity.
Qed.
Lemma get_attr_set_links s a l b k : get_attr (set_links s a l) b k = get_attr s b k.
Proof. unfold get_attr. rewrite attrs_set_links. reflexivity. Qed.

(* a new node *)
Lemma node_at_new_old s n a : (a < length (nodes s))%nat -> node_at (fst (new_node s n)) a = node_at s a.
Proof. intros H. unfold node_at, new_node. cbn. apply app_nth1. exact H. Qed.
Lemma node_at_new_new s n : node_at (fst (new_node s n)) (length (nodes s)) = n.
Proof. unfold node_at, new_node. cbn. rewrite app_nth2 by lia. rewrite Nat.sub_diag. reflexivity. Qed.
Lemma node_at_oob s a : (length (nodes s) <= a)%nat -> node_at s a = empty_node.
Proof. intros H. unfold node_at. apply nth_overflow. exact H. Qed.

(* ---- well-formed stores: every link points at an existing node *)
Definition wf (s : store) : Prop :=
  forall a k x, In (k, x) (links (node_at s a)) -> (x < length (nodes s))%nat.

Lemma link_get_In k l a : link_get k l = Some a -> exists k', In (k', a) l.
Proof.
  induction l as [|[k' a'] l IH]; cbn; [discriminate|].
  destruct (tok_eqb k' k).
  - intros H. injection H as ->. exists k'. left. reflexivity.
  - intros H. destruct (IH H) as [k2 Hin]. exists k2. right. exact Hin.
Qed.
Lemma wf_child s a k x : wf s -> child s a k = Some x -> (x < length (nodes s))%nat.
Proof. intros W H. unfold child in H. apply link_get_In in H. destruct H as [k' Hin]. eapply W. exact Hin. Qed.

Lemma wf_set_attr s a k v : wf s -> wf (set_attr s a k v).
Proof.
  intros W b k' x Hin. rewrite links_set_attr in Hin. rewrite length_set_attr. eapply W. exact Hin.
Qed.
Lemma length_set_links s a l : length (nodes (set_links s a l)) = length (nodes s).
Proof. apply upd_node_length. Qed.
Lemma In_link_del k l p : In p (link_del k l) -> In p l.
Proof. unfold link_del. intros H. apply filter_In in H. tauto. Qed.
Lemma wf_add_link s a k x : wf s -> (x < length (nodes s))%nat -> wf (add_link s a k x).
Proof.
  intros W Hx b k' y Hin. unfold add_link in *. rewrite length_set_links.
  destruct (Nat.eq_dec a b) as [->|Ne].
  - destruct (Nat.lt_ge_cases b (length (nodes s))) as [L|L].
    + rewrite links_set_links_same in Hin by exact L. apply in_app_or in Hin. destruct Hin as [Hin|Hin].
      * apply In_link_del in Hin. eapply W. exact Hin.
      * destruct Hin as [E|[]]. injection E as _ <-. exact Hx.
    + unfold set_links, upd_node, node_at in Hin. cbn in Hin. rewrite upd_nth_oob in Hin by exact L.
      eapply W. exact Hin.
  - rewrite links_set_links_other in Hin by exact Ne. eapply W. exact Hin.
Qed.
Lemma wf_del_link s a k : wf s -> wf (del_link s a k).
Proof.
  intros W b k' y Hin. unfold del_link in *. rewrite length_set_links.
  destruct (Nat.eq_dec a b) as [->|Ne].
  - destruct (Nat.lt_ge_cases b (length (nodes s))) as [L|L].
    + rewrite links_set_links_same in Hin by exact L. apply In_link_del in Hin. eapply W. exact Hin.
    + unfold set_links, upd_node, node_at in Hin. cbn in Hin. rewrite upd_nth_oob in Hin by exact L.
      eapply W. exact Hin.
  - rewrite links_set_links_other in Hin by exact Ne. eapply W. exact Hin.
Qed.
Lemma wf_new_node s n : wf s -> links n = [] -> wf (fst (new_node s n)).
Proof.
  intros W Hn a k x Hin. unfold new_node in *. cbn [fst nodes] in *. rewrite app_length. cbn.
  destruct (Nat.lt_ge_cases a (length (nodes s))) as [L|L].
  - unfold node_at in Hin. cbn in Hin. rewrite app_nth1 in Hin by exact L.
    pose proof (W a k x Hin). lia.
  - unfold node_at in Hin. cbn in Hin.
    destruct (Nat.eq_dec a (length (nodes s))) as [->|Ne].
    + rewrite app_nth2 in Hin by lia. rewrite Nat.sub_diag in Hin. cbn in Hin. rewrite Hn in Hin. destruct Hin.
    + rewrite nth_overflow in Hin by (rewrite app_length; cbn; lia). destruct Hin.
Qed.
Lemma length_new_node s n : length (nodes (fst (new_node s n))) = S (length (nodes s)).
Proof. unfold new_node. cbn. rewrite app_length. cbn. lia. Qed.

Lemma ensure_group_wf s pa k s' c : wf s -> ensure_group s pa k = (s', c) ->
  wf s' /\ (c < length (nodes s'))%nat /\ (length (nodes s) <= length (nodes s'))%nat.
Proof.
  intros W E. unfold ensure_group in E. destruct (child s pa k) as [c0|] eqn:Ec.
  - injection E as <- <-. split; [exact W|]. split; [eapply wf_child; eassumption | lia].
  - cbn in E. injection E as <- <-.
    change (mkStore (nodes s ++ [empty_node])) with (fst (new_node s empty_node)).
    split; [|split].
    + apply wf_add_link; [apply wf_new_node; [exact W | reflexivity]|].
      rewrite length_new_node. lia.
    + unfold add_link. rewrite length_set_links, length_new_node. lia.
    + unfold add_link. rewrite length_set_links, length_new_node. lia.
Qed.
