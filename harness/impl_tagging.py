"""Implementation side of C08: tagged_data / feature_data of tags and multi-tags on arrays that
hold their own row-major offsets."""
import json
import os
import sys
from fractions import Fraction

import numpy as np
import nixio
from nixio.exceptions import OutOfBounds, IncompatibleDimensions, InvalidSlice


def fl(x):
    return float(Fraction(x[0], x[1]))


def make_array(b, name, dims, shape):
    n = int(np.prod(shape)) if shape else 1
    a = b.create_data_array(name, "t", data=np.arange(n, dtype=np.float64).reshape(tuple(shape)))
    for d in dims:
        if d[0] == "sampled":
            kw = {}
            if d[3] is not None:
                kw["unit"] = d[3]
            if d[1] is not None:
                kw["offset"] = fl(d[1])
            a.append_sampled_dimension(fl(d[2]), **kw)
        elif d[0] == "range":
            kw = {}
            if d[2] is not None:
                kw["unit"] = d[2]
            a.append_range_dimension([fl(t) for t in d[1]], **kw)
        else:
            a.append_set_dimension(["l%d" % k for k in range(d[1])] if d[1] else None)
    return a


def classify(exc):
    if isinstance(exc, IncompatibleDimensions):
        return 1
    if isinstance(exc, OutOfBounds):
        return 3
    if isinstance(exc, IndexError):
        return 2
    return 9


def observe(fn):
    try:
        v = fn()
    except Exception as exc:
        return ["err", classify(exc), type(exc).__name__ + ": " + str(exc)[:80]]
    if not v.valid:
        # an invalid view must not hand out data
        try:
            got = np.asarray(v[:])
        except Exception:
            return ["invalid"]
        if got.size:
            return ["invalid_but_data", [int(x) for x in got.ravel()[:8]]]
        return ["invalid"]
    data = np.asarray(v[:])
    return ["data", [int(x) for x in data.shape], [int(x) for x in data.ravel()]]


def main():
    req = json.load(sys.stdin)
    wd = os.getcwd()
    path = os.path.join(wd, "tg.nix")
    out = []
    f = nixio.File.open(path, nixio.FileMode.Overwrite)
    for k, c in enumerate(req["cases"]):
        b = f.create_block("b%d" % k, "t")
        try:
            a = make_array(b, "a", c["dims"], c["shape"])
            pos = [fl(x) for x in c["pos"]]
            ext = [fl(x) for x in c["ext"]]
            rule = nixio.SliceMode.Exclusive if c["rule"] == "Exclusive" else nixio.SliceMode.Inclusive
            if c["mtag"]:
                rows = c["rows"]
                i = c["posidx"]
                if c["flat_positions"]:
                    parr = np.array([fl(r[0]) for r in rows[:i]] + [pos[0]] + [fl(r[0]) for r in rows[i:]])
                else:
                    parr = np.array([[fl(x) for x in r] for r in rows[:i]] + [pos] + [[fl(x) for x in r] for r in rows[i:]]).reshape(len(rows) + 1, len(pos))
                pa = b.create_data_array("pos", "t", data=parr)
                t = b.create_multi_tag("t", "t", pa)
                if ext:
                    if c["flat_positions"]:
                        earr = np.array([0.0] * i + [ext[0]] + [0.0] * (len(rows) - i))
                    else:
                        earr = np.zeros((len(rows) + 1, len(ext)))
                        earr[i, :] = ext
                    t.extents = b.create_data_array("ext", "t", data=earr)
            else:
                t = b.create_tag("t", "t", pos)
                if ext:
                    t.extent = ext
            if c["units"] is not None:
                t._h5group.write_data("units", list(c["units"]), nixio.DataType.String)
            what = c["what"]
            if what == 0:
                t.references.append(a)
                if c["mtag"]:
                    r = observe(lambda: t.tagged_data(c["posidx"], 0, rule))
                else:
                    r = observe(lambda: t.tagged_data(0, rule))
            else:
                lt = [nixio.LinkType.Tagged, nixio.LinkType.Indexed, nixio.LinkType.Untagged][what - 1]
                t.create_feature(a, lt)
                if c["mtag"]:
                    r = observe(lambda: t.feature_data(c["posidx"], 0, rule))
                else:
                    r = observe(lambda: t.feature_data(0, rule))
        except Exception as exc:
            r = ["build_error", type(exc).__name__ + ": " + str(exc)[:100]]
        out.append(r)
    f.close()
    os.remove(path)
    json.dump(out, sys.stdout)


main()
