"""debug_hist.py <replay.json|-> [step]: run a history on the implementation and in the model and
print both walks (token streams) at the given step (default: the step the replay names)."""
import json
import os
import subprocess
import sys
import tempfile

sys.path.insert(0, os.path.dirname(os.path.abspath(__file__)))
import nixcases  # noqa: E402
from coqlit import clist  # noqa: E402

V = os.path.dirname(os.path.dirname(os.path.abspath(__file__)))


def main():
    d = json.load(open(sys.argv[1]))
    hist = d["history"] if "history" in d else d["input"]["history"]
    step = int(sys.argv[2]) if len(sys.argv) > 2 else len(hist) - 1
    hist = hist[:step + 1]
    wd = tempfile.mkdtemp(prefix="dbg", dir=os.path.join(V, "work"))
    env = dict(os.environ, PYTHONPATH="%s:%s" % (os.environ.get("VERIF_REPO", "/repo"), os.path.join(V, "harness")), PYTHONHASHSEED="0")
    r = subprocess.run(["/venv/bin/python", os.path.join(V, "harness", "nixrun.py")], input=json.dumps({"replay": [hist]}),
                       capture_output=True, text=True, cwd=wd, env=env)
    out = json.loads(r.stdout)[0]
    print("results:", out["results"][-3:])
    w = out["walks"][-1]
    ops = clist([nixcases.op_lit(tuple(tuple(x) if isinstance(x, list) and x and isinstance(x[0], str) and x[0] in ("name", "pos", "obj", "idof") else x for x in o)) for o in hist], "op")
    src = nixcases.HEADER + "Definition ops := %s.\nDefinition fin := run_from ops 1000%%Z init_st.\n" % ops + \
        "Eval vm_compute in (snd fin).\nEval vm_compute in (walk false (sto (fst fin))).\n"
    open(os.path.join(wd, "dbg.v"), "w").write(src)
    r = subprocess.run(["coqc", "-Q", os.path.join(V, "coq"), "NixV", "dbg.v"], capture_output=True, text=True, cwd=wd)
    print(r.stdout[-6000:], r.stderr[-2000:])
    ids = {}
    toks = []
    for t in w:
        if isinstance(t, str) and len(t) == 36 and t.count("-") == 4:
            toks.append("#%d" % ids.setdefault(t, len(ids)))
        else:
            toks.append(t)
    print("IMPL:", toks)


main()
