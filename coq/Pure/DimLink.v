(* Pure/DimLink.v -- a range and a set dimension of a host array that may be linked to a vector of a
   target array (nixio/dimensions.py: Dimension.link_data_array, remove_link, DimensionLink,
   RangeDimension.ticks/unit/label, SetDimension.labels).  Values are integers (the harness
   uses small floats).  DataFrame links are not modelled. *)
From Coq Require Import ZArith List Bool.
From NixV Require Import Base.Prelude.
Import ListNotations.
Open Scope Z_scope.

Record target := mkTarget { t_unit : option str; t_label : option str; t_shape : list Z; t_cells : list Z }.
Record rdim := mkR { r_ticks : option (list Z); r_unit : option str; r_label : option str; r_link : option (list Z) }.
Record sdim := mkS { s_labels : option (list Z); s_link : option (list Z) }.
(* descriptors appended later (DataArray.append_*_dimension) *)
Inductive xdim :=
| XRange (ticks : option (list Z)) (unit label : option str)
| XSampled (interval : Z) (unit label : option str) (offset : option Z)
| XSet (labels : option (list Z)).
Record dstate := mkDS { tg : target; rd : rdim; sd : sdim; extra : list xdim }.
(* arguments as a caller can pass them: a proper value, nothing, or something of the wrong type *)
Inductive targ := TkOk (l : list Z) | TkNone | TkBad.
Inductive sarg := StOk (s : str) | StNone | StBad.
Inductive narg := NmOk (z : Z) | NmNone | NmBad.
Definition sarg_val (a : sarg) : option str := match a with StOk s => Some s | _ => None end.
Definition sarg_bad (a : sarg) : bool := match a with StBad => true | _ => false end.

Inductive derr := EIncompat | EValue | ERuntime | EIndex.

(* DimensionLink.values: data[index with -1 -> slice(None)] of a row-major array of rank 1 or 2 *)
Definition nthZ (l : list Z) (i : Z) : option Z := if i <? 0 then None else nth_error l (Z.to_nat i).
Fixpoint gather_opt (l : list (option Z)) : option (list Z) :=
  match l with [] => Some [] | Some x :: r => option_map (cons x) (gather_opt r) | None :: _ => None end.
Definition zseq (n : Z) : list Z := map Z.of_nat (seq 0 (Z.to_nat n)).
Definition link_values (t : target) (idx : list Z) : option (list Z) :=
  match t_shape t, idx with
  | [n], [-1] => Some (t_cells t)
  | [r; c], [-1; k] => if (k <? 0) || (c <=? k) then None
                       else gather_opt (map (fun i => nthZ (t_cells t) (i * c + k)) (zseq r))
  | [r; c], [k; -1] => if (k <? 0) || (r <=? k) then None
                       else gather_opt (map (fun j => nthZ (t_cells t) (k * c + j)) (zseq c))
  | _, _ => None
  end.

(* the two tests of link_data_array *)
Definition count_neg1 (idx : list Z) : nat := length (filter (Z.eqb (-1)) idx).
Definition count_neg (idx : list Z) : nat := length (filter (fun z => z <? 0) idx).
Definition link_check (t : target) (idx : list Z) : option derr :=
  if negb (Nat.eqb (length (t_shape t)) (length idx)) then Some EIncompat
  else if negb (Nat.eqb (count_neg1 idx) 1) || negb (Nat.eqb (count_neg idx) 1) then Some EValue
  else None.

(* np.any(np.diff(ticks) < 0) *)
Fixpoint descends (l : list Z) : bool :=
  match l with a :: ((b :: _) as r) => (b <? a) || descends r | _ => false end.

Inductive dop :=
| RSetTicks (l : list Z) | RLink (idx : list Z) | RUnlink | RSetUnit (u : str) | RSetLabel (u : str)
| SSetLabels (l : list Z) | SLink (idx : list Z) | SUnlink
| TSetUnit (u : option str) | TSetLabel (u : option str) | TSetCell (i : nat) (v : Z)
| AppendRange (t : targ) (label unit : sarg)
| AppendSampled (itv : narg) (label unit : sarg) (offset : narg)
| AppendSet (l : targ).

Definition set_nthZ (l : list Z) (i : nat) (v : Z) : list Z :=
  firstn i l ++ match skipn i l with [] => [] | _ :: r => v :: r end.

Definition dstep (s : dstate) (o : dop) : dstate * option derr :=
  let t := tg s in let r := rd s in let d := sd s in
  match o with
  | RSetTicks l =>
      if descends l then (s, Some EValue)
      else (mkDS t (mkR (Some l) (r_unit r) (r_label r) None) d (extra s), None)
  | RLink idx =>
      match link_check t idx with
      | Some e => (s, Some e)
      | None => (mkDS t (mkR None (r_unit r) (r_label r) (Some idx)) d (extra s), None)
      end
  | RUnlink => match r_link r with
               | None => (s, Some ERuntime)
               | Some _ => (mkDS t (mkR (r_ticks r) (r_unit r) (r_label r) None) d (extra s), None)
               end
  | RSetUnit u => match r_link r with
                  | Some _ => (mkDS (mkTarget (Some u) (t_label t) (t_shape t) (t_cells t)) r d (extra s), None)
                  | None => (mkDS t (mkR (r_ticks r) (Some u) (r_label r) None) d (extra s), None)
                  end
  | RSetLabel u => match r_link r with
                   | Some _ => (mkDS (mkTarget (t_unit t) (Some u) (t_shape t) (t_cells t)) r d (extra s), None)
                   | None => (mkDS t (mkR (r_ticks r) (r_unit r) (Some u) None) d (extra s), None)
                   end
  | SSetLabels l => match s_link d with
                    | Some _ => (s, Some ERuntime)
                    | None => (mkDS t r (mkS (Some l) None) (extra s), None)
                    end
  | SLink idx => match link_check t idx with
                 | Some e => (s, Some e)
                 | None => (mkDS t r (mkS (s_labels d) (Some idx)) (extra s), None)
                 end
  | SUnlink => match s_link d with
               | None => (s, Some ERuntime)
               | Some _ => (mkDS t r (mkS (s_labels d) None) (extra s), None)
               end
  (* append_*_dimension: the descriptor is made, then filled; whatever is refused on the way (a label or
     unit that is not text, ticks that are not numbers or descend, an interval or offset that is not a
     number, labels that are not text) leaves no descriptor behind *)
  | AppendRange tk lb un =>
      if sarg_bad lb || sarg_bad un then (s, Some EValue)
      else match tk with
           | TkBad => (s, Some EValue)
           | TkOk l => if descends l then (s, Some EValue)
                       else (mkDS t r d (extra s ++ [XRange (Some l) (sarg_val un) (sarg_val lb)]), None)
           | TkNone => (mkDS t r d (extra s ++ [XRange None (sarg_val un) (sarg_val lb)]), None)
           end
  | AppendSampled iv lb un off =>
      match iv with
      | NmOk z =>
          if sarg_bad lb || sarg_bad un || match off with NmBad => true | _ => false end then (s, Some EValue)
          else (mkDS t r d (extra s ++ [XSampled z (match un with StOk [] => None | x => sarg_val x end)
                                                  (match lb with StOk [] => None | x => sarg_val x end)
                                                  (match off with NmOk 0 => None | NmOk o => Some o | _ => None end)]), None)
      | _ => (s, Some EValue)
      end
  | AppendSet l =>
      match l with
      | TkBad => (s, Some EValue)
      | TkOk x => (mkDS t r d (extra s ++ [XSet (Some x)]), None)
      | TkNone => (mkDS t r d (extra s ++ [XSet None]), None)
      end
  | TSetUnit u => (mkDS (mkTarget u (t_label t) (t_shape t) (t_cells t)) r d (extra s), None)
  | TSetLabel u => (mkDS (mkTarget (t_unit t) u (t_shape t) (t_cells t)) r d (extra s), None)
  | TSetCell i v => (mkDS (mkTarget (t_unit t) (t_label t) (t_shape t) (set_nthZ (t_cells t) i v)) r d (extra s), None)
  end.

(* what the dimension reports *)
Definition get_ticks (s : dstate) : option (list Z) :=             (* None = reading raises *)
  match r_link (rd s) with
  | Some idx => link_values (tg s) idx
  | None => Some (match r_ticks (rd s) with Some l => l | None => [] end)
  end.
Definition get_unit (s : dstate) : option str :=
  match r_link (rd s) with Some _ => t_unit (tg s) | None => r_unit (rd s) end.
Definition get_label (s : dstate) : option str :=
  match r_link (rd s) with Some _ => t_label (tg s) | None => r_label (rd s) end.
Definition get_labels (s : dstate) : option (list Z) :=
  match s_link (sd s) with
  | Some idx => link_values (tg s) idx
  | None => Some (match s_labels (sd s) with Some l => l | None => [] end)
  end.
