(* Proofs/ValidatorProofs.v -- the validator model against the declarative catalogue:
   (1) a consistent file is reported silent; (2) every catalogue error appears in an object's
   report exactly when that object has the inconsistency. *)
From Coq Require Import ZArith List Bool Lia.
From NixV Require Import Base.Prelude Pure.Regex Pure.Units Pure.Validator.
Import ListNotations.
Open Scope Z_scope.

(* ---------------------------------------------------------------- the declarative side *)
Definition ent_ok (e : ent) : Prop := has_name e = true /\ has_type e = true /\ has_date e = true.
Definition unit_atomic (u : option str) : Prop :=
  match truthy u with Some x => is_atomic x = true | None => True end.
Definition increasing (l : list Z) : Prop :=
  forall i, (S i < length l)%nat -> nth i l 0 < nth (S i) l 0.
Definition dim_ok (d : dimd) (n : nat) : Prop :=
  match d with
  | DSet nl => nl = 0%nat \/ nl = n
  | DSampled iv u => (exists z, iv = Some z /\ 0 < z) /\ unit_atomic u
  | DRange ticks u => length ticks = n /\ ticks <> [] /\ increasing ticks /\ unit_atomic u
  end.
(* one descriptor per data dimension (Forall2: equal lengths), each consistent with its extent *)
Definition arr_ok (a : arr) : Prop := ent_ok (ar_ent a) /\ Forall2 dim_ok (ar_dims a) (ar_shape a).

Definition unit_pair_ok (t r : str) : Prop := (t = [] /\ r = []) \/ scalable t r = true.
Definition units_ok (units : list str) (refs : list arr) : Prop :=
  (forall u, In u units -> u <> [] -> is_si u = true) /\
  (forall a, In a refs -> Forall2 unit_pair_ok units (dim_units a)).
Definition tag_ok (f : nfile) (t : tag) : Prop :=
  let refs := ref_arrays f (tg_refs t) in
  ent_ok (tg_ent t) /\ tg_npos t <> 0%nat /\
  (forall a, In a refs -> rank a = tg_npos t) /\
  (refs <> [] -> tg_next t = 0%nat \/ tg_next t = tg_npos t) /\
  units_ok (tg_units t) refs.
Definition mtag_ok (f : nfile) (t : mtag) : Prop :=
  let refs := ref_arrays f (mt_refs t) in
  ent_ok (mt_ent t) /\
  (exists sh, mt_pos t = Some sh /\ nonempty_arr sh = true /\
     (forall a, In a refs -> rank a = second_dim sh) /\
     (refs <> [] -> match mt_ext t with
                    | Some esh => nonempty_arr esh = false \/ esh = sh
                    | None => True
                    end)) /\
  units_ok (mt_units t) refs.
Definition file_ok (f : nfile) : Prop :=
  Forall arr_ok (f_arrays f) /\ Forall (tag_ok f) (f_tags f) /\ Forall (mtag_ok f) (f_mtags f) /\
  Forall ent_ok (f_others f).

(* ---------------------------------------------------------------- small facts *)
Lemma strictly_sorted_increasing l : strictly_sorted l = true <-> increasing l.
Proof.
  induction l as [|a [|b r] IH]; cbn [strictly_sorted].
  - split; auto. intros _ i H. cbn in H. lia.
  - split; auto. intros _ i H. cbn in H. lia.
  - rewrite andb_true_iff, Z.ltb_lt, IH. split.
    + intros [Hab Hr] [|i] Hi; [exact Hab|]. apply (Hr i). cbn in *. lia.
    + intros H. split; [apply (H O); cbn; lia|]. intros i Hi. apply (H (S i)). cbn in *. lia.
Qed.
Lemma check_entity_ok e : ent_ok e -> check_entity e = [].
Proof. intros (A & B & C). unfold check_entity. rewrite A, B, C. reflexivity. Qed.
Lemma unit_err_ok idx u : unit_atomic u ->
  match truthy u with Some x => if is_atomic x then [] else [EDimUnit idx] | None => [] end = [].
Proof. unfold unit_atomic. destruct (truthy u); [intros ->|]; reflexivity. Qed.
Lemma check_dim_ok idx d n : dim_ok d n -> check_dim idx d n = [].
Proof.
  destruct d as [nl|iv u|ticks u]; cbn [dim_ok check_dim].
  - intros [-> | ->]; [reflexivity|]. rewrite Nat.eqb_refl, andb_false_r. reflexivity.
  - intros [[z [-> Hz]] Hu]. rewrite (unit_err_ok idx u Hu).
    destruct (Z.eqb_spec z 0); [lia|]. destruct (Z.ltb_spec z 0); [lia|]. reflexivity.
  - intros (Hl & Hne & Hs & Hu). rewrite (unit_err_ok idx u Hu), Hl, Nat.eqb_refl.
    apply strictly_sorted_increasing in Hs. rewrite Hs. destruct ticks; [contradiction|reflexivity].
Qed.
Lemma check_dims_ok ds shape : Forall2 dim_ok ds shape -> forall idx, check_dims idx ds shape = [].
Proof. induction 1 as [|d n ds shape Hd _ IH]; intros idx; cbn [check_dims]; [reflexivity|].
  rewrite (check_dim_ok idx d n Hd), IH. reflexivity. Qed.
Lemma Forall2_length' {A B} (P : A -> B -> Prop) l l' : Forall2 P l l' -> length l = length l'.
Proof. induction 1; cbn; auto. Qed.
Lemma check_array_ok a : arr_ok a -> check_array a = [].
Proof. intros [He Hd]. unfold check_array. rewrite (check_entity_ok _ He), (check_dims_ok _ _ Hd).
  rewrite (Forall2_length' _ _ _ Hd), Nat.eqb_refl. reflexivity. Qed.

Lemma existsb_false_forall {A} (p : A -> bool) l : (forall x, In x l -> p x = false) -> existsb p l = false.
Proof. induction l as [|x l IH]; cbn; intros H; [reflexivity|]. rewrite H by (now left). apply IH. intros y Hy. apply H. now right. Qed.
Lemma units_match1_ok tu ru : Forall2 unit_pair_ok tu ru -> units_match1 tu ru = true.
Proof. induction 1 as [|t r tu ru [[-> ->]|Hs] _ IH]; cbn [units_match1]; [reflexivity| |].
  - exact IH.
  - rewrite IH, andb_true_r. destruct t; [destruct r|]; auto. Qed.
Lemma check_units_ok units refs : units_ok units refs -> check_units units refs ++ check_unit_si units = [].
Proof.
  intros [Hsi Hm].
  assert (E2 : check_unit_si units = []).
  { unfold check_unit_si. rewrite existsb_false_forall; [reflexivity|]. intros u Hu. destruct u as [|c u']; [reflexivity|].
    rewrite (Hsi _ Hu) by discriminate. reflexivity. }
  rewrite E2, app_nil_r. unfold check_units. destruct refs as [|a0 r0] eqn:E; [reflexivity|]. rewrite <- E in *.
  rewrite existsb_false_forall.
  - unfold units_match. replace (forallb (units_match1 units) (map dim_units refs)) with true; [reflexivity|].
    symmetry. apply forallb_forall. intros ru Hru. apply in_map_iff in Hru. destruct Hru as (a & <- & Ha).
    apply units_match1_ok, Hm, Ha.
  - intros a Ha. rewrite <- (Forall2_length' _ _ _ (Hm a Ha)), Nat.eqb_refl. reflexivity.
Qed.
Lemma check_tag_ok f t : tag_ok f t -> check_tag f t = [].
Proof.
  intros (He & Hp & Hr & Hx & Hu). unfold check_tag. rewrite (check_entity_ok _ He), (check_units_ok _ _ Hu).
  destruct (Nat.eqb_spec (tg_npos t) 0); [contradiction|]. cbn [app]. rewrite app_nil_r.
  destruct (ref_arrays f (tg_refs t)) as [|a0 r0] eqn:E; [reflexivity|]. rewrite <- E in *.
  rewrite existsb_false_forall by (intros a Ha; rewrite (Hr a Ha), Nat.eqb_refl; reflexivity).
  destruct Hx as [Hx|Hx]; [rewrite E; discriminate| |]; rewrite Hx; [reflexivity|].
  destruct (Nat.eqb_spec (tg_npos t) 0); [contradiction|]. rewrite Nat.eqb_refl.
  rewrite existsb_false_forall by (intros a Ha; rewrite (Hr a Ha), Nat.eqb_refl; reflexivity). reflexivity.
Qed.
Lemma shape_eqb_refl sh : shape_eqb sh sh = true.
Proof. unfold shape_eqb. induction sh; cbn; [reflexivity|]. now rewrite Nat.eqb_refl. Qed.
Lemma check_mtag_ok f t : mtag_ok f t -> check_mtag f t = [].
Proof.
  intros (He & (sh & Hp & Hn & Hr & Hx) & Hu). unfold check_mtag.
  rewrite (check_entity_ok _ He), (check_units_ok _ _ Hu), Hp, Hn. cbn [app]. rewrite app_nil_r.
  destruct (ref_arrays f (mt_refs t)) as [|a0 r0] eqn:E; [reflexivity|]. rewrite <- E in *.
  rewrite existsb_false_forall by (intros a Ha; rewrite (Hr a Ha), Nat.eqb_refl; reflexivity).
  specialize (Hx ltac:(rewrite E; discriminate)). destruct (mt_ext t) as [esh|]; [|reflexivity].
  destruct Hx as [Hx| ->]; [rewrite Hx; reflexivity|]. rewrite Hn, shape_eqb_refl.
  rewrite existsb_false_forall by (intros a Ha; rewrite (Hr a Ha), Nat.eqb_refl; reflexivity). reflexivity.
Qed.

Theorem consistent_file_silent f : file_ok f -> forall l, In l (check_file f) -> l = [].
Proof.
  intros (Ha & Ht & Hm & Ho) l Hin. unfold check_file in Hin. rewrite !in_app_iff, !in_map_iff in Hin.
  rewrite Forall_forall in Ha, Ht, Hm, Ho.
  destruct Hin as [(x & <- & Hx)|[(x & <- & Hx)|[(x & <- & Hx)|(x & <- & Hx)]]].
  - apply check_array_ok, Ha, Hx.
  - apply check_tag_ok, Ht, Hx.
  - apply check_mtag_ok, Hm, Hx.
  - apply check_entity_ok, Ho, Hx.
Qed.

(* ---------------------------------------------------------------- exactness, per error *)
Lemma entity_errors e :
  (In ENoName (check_entity e) <-> has_name e = false) /\
  (In ENoType (check_entity e) <-> has_type e = false) /\
  (In ENoDate (check_entity e) <-> has_date e = false) /\
  (forall x, In x (check_entity e) -> x = ENoName \/ x = ENoType \/ x = ENoDate).
Proof. unfold check_entity. destruct (has_name e), (has_type e), (has_date e); cbn; intuition (try discriminate; auto). Qed.

(* the errors of a dimension descriptor: which, and when *)
Definition unit_not_atomic (u : option str) : Prop := exists x, truthy u = Some x /\ is_atomic x = false.
Lemma dim_errors idx d n e : In e (check_dim idx d n) <->
  (e = ETicksCount idx /\ exists t u, d = DRange t u /\ length t <> n) \/
  (e = ENoTicks idx /\ exists u, d = DRange [] u) \/
  (e = EUnsortedTicks idx /\ exists t u, d = DRange t u /\ t <> [] /\ ~ increasing t) \/
  (e = ELabelsCount idx /\ exists nl, d = DSet nl /\ nl <> 0%nat /\ nl <> n) \/
  (e = ENoInterval idx /\ exists u, d = DSampled None u \/ d = DSampled (Some 0) u) \/
  (e = ENegInterval idx /\ exists z u, d = DSampled (Some z) u /\ z < 0) \/
  (e = EDimUnit idx /\ match d with DSet _ => False | DSampled _ u | DRange _ u => unit_not_atomic u end).
Proof.
  assert (U : forall u, In e (match truthy u with Some x => if is_atomic x then [] else [EDimUnit idx] | None => [] end)
                        <-> e = EDimUnit idx /\ unit_not_atomic u).
  { intros u. unfold unit_not_atomic. destruct (truthy u) as [x|]; [destruct (is_atomic x) eqn:Ea|].
    - split; [intros []|]. intros [_ (y & Hy & H)]. injection Hy as <-. congruence.
    - split; [intros [<-|[]]; split; [reflexivity|]; exists x; auto|]. intros [-> _]. now left.
    - split; [intros []|]. intros [_ (y & H & _)]. discriminate. }
  destruct d as [nl|iv u|ticks u]; cbn [check_dim].
  - destruct (Nat.eqb_spec nl 0), (Nat.eqb_spec nl n); cbn; split; intros H;
      repeat match goal with
             | H : _ \/ _ |- _ => destruct H
             | H : _ /\ _ |- _ => destruct H
             | H : exists _, _ |- _ => destruct H
             | H : False |- _ => contradiction
             | H : DSet _ = DSet _ |- _ => injection H as ->
             end; try discriminate; try lia; subst; try contradiction.
    + right; right; right; left. split; [reflexivity|]. exists nl. auto.
    + now left.
  - rewrite in_app_iff, U. split.
    + intros [H|H]; [|right; right; right; right; right; right; exact H].
      destruct iv as [z|]; [destruct (Z.eqb_spec z 0) as [->|]; [|destruct (Z.ltb_spec z 0)]|]; cbn in H;
        try contradiction; destruct H as [<-|[]].
      * right; right; right; right; left. split; eauto.
      * right; right; right; right; right; left. split; eauto.
      * right; right; right; right; left. split; eauto.
    + intros H. repeat match goal with
                       | H : _ \/ _ |- _ => destruct H
                       | H : _ /\ _ |- _ => destruct H
                       | H : exists _, _ |- _ => destruct H
                       | H : False |- _ => contradiction
                       end; try discriminate; subst.
      * left. injection H0 as -> _. cbn. auto.
      * left. injection H0 as -> _. cbn. auto.
      * left. injection H0 as -> _. destruct (Z.eqb_spec x 0); [lia|]. destruct (Z.ltb_spec x 0); [|lia]. cbn. auto.
      * right. split; auto.
  - rewrite !in_app_iff, U. split.
    + intros [H|[H|H]]; [| |right; right; right; right; right; right; exact H].
      * destruct (Nat.eqb_spec (length ticks) n); cbn in H; [contradiction|]. destruct H as [<-|[]].
        left. split; eauto.
      * destruct ticks as [|t0 tr]; [destruct H as [<-|[]]; right; left; split; eauto|].
        destruct (strictly_sorted (t0 :: tr)) eqn:Es; cbn in H; [contradiction|]. destruct H as [<-|[]].
        right; right; left. split; [reflexivity|]. exists (t0 :: tr), u. split; [reflexivity|]. split; [discriminate|].
        intros Hi. apply strictly_sorted_increasing in Hi. congruence.
    + intros H. repeat match goal with
                       | H : _ \/ _ |- _ => destruct H
                       | H : _ /\ _ |- _ => destruct H
                       | H : exists _, _ |- _ => destruct H
                       | H : False |- _ => contradiction
                       end; try discriminate; subst.
      * left. injection H0 as -> _. destruct (Nat.eqb_spec (length x) n); [contradiction|]. cbn. auto.
      * right; left. injection H0 as -> _. cbn. auto.
      * right; left. injection H0 as -> _. destruct x as [|t0 tr]; [contradiction|].
        destruct (strictly_sorted (t0 :: tr)) eqn:Es; [apply strictly_sorted_increasing in Es; contradiction|]. cbn. auto.
      * right; right. split; auto.
Qed.

(* lifted to the array: the error of dimension idx comes from the idx-th descriptor and the
   idx-th extent (dimensions are numbered from 1; pairs beyond the shorter list are not looked at) *)
Lemma check_dims_in e ds shape : forall i0, In e (check_dims i0 ds shape) <->
  exists k d n, nth_error ds k = Some d /\ nth_error shape k = Some n /\ In e (check_dim (i0 + Z.of_nat k) d n).
Proof.
  revert shape; induction ds as [|d ds IH]; intros shape i0; cbn [check_dims].
  - split; [contradiction|]. intros (k & d & n & H & _). destruct k; discriminate.
  - destruct shape as [|n shape].
    + split; [contradiction|]. intros (k & d' & n' & _ & H & _). destruct k; discriminate.
    + rewrite in_app_iff, IH. split.
      * intros [H|(k & d' & n' & H1 & H2 & H3)].
        -- exists O, d, n. cbn. rewrite Z.add_0_r. auto.
        -- exists (S k), d', n'. cbn [nth_error]. repeat split; auto. replace (i0 + Z.of_nat (S k)) with (i0 + 1 + Z.of_nat k) by lia. exact H3.
      * intros (k & d' & n' & H1 & H2 & H3). destruct k as [|k]; cbn in H1, H2.
        -- injection H1 as <-. injection H2 as <-. left. rewrite Z.add_0_r in H3. exact H3.
        -- right. exists k, d', n'. repeat split; auto. replace (i0 + 1 + Z.of_nat k) with (i0 + Z.of_nat (S k)) by lia. exact H3.
Qed.
Lemma array_dimension_mismatch a : In EDimMismatch (check_array a) <-> length (ar_dims a) <> length (ar_shape a).
Proof.
  unfold check_array. rewrite !in_app_iff. split.
  - intros [H|[H|H]].
    + apply (proj2 (proj2 (proj2 (entity_errors _)))) in H. destruct H as [H|[H|H]]; discriminate.
    + destruct (Nat.eqb_spec (length (ar_dims a)) (length (ar_shape a))); [contradiction|assumption].
    + apply check_dims_in in H. destruct H as (k & d & n & _ & _ & H). apply dim_errors in H.
      repeat match goal with H : _ \/ _ |- _ => destruct H | H : _ /\ _ |- _ => destruct H end; discriminate.
  - intros H. right; left. destruct (Nat.eqb_spec (length (ar_dims a)) (length (ar_shape a))); [contradiction|now left].
Qed.

(* tags *)
Lemma tag_no_position f t : In ENoPosition (check_tag f t) <-> tg_npos t = 0%nat.
Proof.
  unfold check_tag. rewrite !in_app_iff. split.
  - intros [H|[H|[H|[H|H]]]].
    + apply (proj2 (proj2 (proj2 (entity_errors _)))) in H. destruct H as [H|[H|H]]; discriminate.
    + destruct (Nat.eqb_spec (tg_npos t) 0); [assumption|contradiction].
    + destruct (ref_arrays f (tg_refs t)); [contradiction|]. rewrite !in_app_iff in H.
      destruct H as [H|H]; [destruct (existsb _ _); [destruct H as [H|[]]; discriminate|contradiction]|].
      destruct (tg_next t =? 0)%nat; [contradiction|]. rewrite in_app_iff in H.
      destruct H as [H|H]; [destruct (_ =? _)%nat; [contradiction|destruct H as [H|[]]; discriminate]|].
      destruct (existsb _ _); [destruct H as [H|[]]; discriminate|contradiction].
    + unfold check_units in H. destruct (ref_arrays f (tg_refs t)); [contradiction|]. rewrite in_app_iff in H.
      destruct H as [H|H]; [destruct (existsb _ _)|destruct (units_match _ _)]; try contradiction; destruct H as [H|[]]; discriminate.
    + unfold check_unit_si in H. destruct (existsb _ _); [destruct H as [H|[]]; discriminate|contradiction].
  - intros H. right; left. rewrite H. now left.
Qed.

(* the complete characterisation of a tag's and a multi-tag's report *)
Ltac split_ors :=
  repeat match goal with
         | H : _ \/ _ |- _ => destruct H
         | H : _ /\ _ |- _ => destruct H
         | H : False |- _ => contradiction
         | H : In _ [] |- _ => contradiction
         | H : In _ (_ :: _) |- _ => destruct H
         | H : In _ (_ ++ _) |- _ => apply in_app_or in H
         end.

Lemma tag_errors f t e : let refs := ref_arrays f (tg_refs t) in
  In e (check_tag f t) <->
  In e (check_entity (tg_ent t)) \/
  (e = ENoPosition /\ tg_npos t = 0%nat) \/
  (e = EPosDim /\ refs <> [] /\ existsb (fun a => negb (Nat.eqb (tg_npos t) (rank a))) refs = true) \/
  (e = EPosExt /\ refs <> [] /\ tg_next t <> 0%nat /\ tg_next t <> tg_npos t) \/
  (e = EExtDim /\ refs <> [] /\ tg_next t <> 0%nat /\ existsb (fun a => negb (Nat.eqb (tg_next t) (rank a))) refs = true) \/
  (e = EUnitsCount /\ refs <> [] /\ existsb (fun a => negb (Nat.eqb (length (dim_units a)) (length (tg_units t)))) refs = true) \/
  (e = EUnitsIncompatible /\ refs <> [] /\ units_match (tg_units t) (map dim_units refs) = false) \/
  (e = EUnitNotSI /\ existsb (fun u => match u with [] => false | _ => negb (is_si u) end) (tg_units t) = true).
Proof.
  intros refs. unfold check_tag, check_units, check_unit_si. fold refs.
  destruct (Nat.eqb_spec (tg_npos t) 0) as [E0|E0];
  destruct (existsb (fun u => match u with [] => false | _ => negb (is_si u) end) (tg_units t)) eqn:E7;
  destruct (existsb (fun a => negb (Nat.eqb (tg_npos t) (rank a))) refs) eqn:E2;
  destruct (Nat.eqb_spec (tg_next t) 0) as [E3|E3];
  destruct (Nat.eqb_spec (tg_next t) (tg_npos t)) as [E4|E4];
  destruct (existsb (fun a => negb (Nat.eqb (tg_next t) (rank a))) refs) eqn:E5;
  destruct (existsb (fun a => negb (Nat.eqb (length (dim_units a)) (length (tg_units t)))) refs) eqn:E6;
  destruct (units_match (tg_units t) (map dim_units refs)) eqn:E8;
  destruct refs as [|a0 r0] eqn:ER; cbn [app]; rewrite ?app_nil_r.
  all: try (cbn in E2; discriminate); try (cbn in E5; discriminate); try (cbn in E6; discriminate); try (cbn in E8; discriminate).
  all: try (assert (NE : a0 :: r0 <> []) by discriminate).
  all: split; intros H; [ repeat rewrite in_app_iff in H; split_ors; subst; try discriminate; try congruence; try lia; auto 12
                        | split_ors; subst; try discriminate; try congruence; try lia;
                          repeat rewrite in_app_iff; cbn [In]; auto 12 ].
Qed.

Lemma mtag_errors f t e : let refs := ref_arrays f (mt_refs t) in
  In e (check_mtag f t) <->
  In e (check_entity (mt_ent t)) \/
  (e = ENoPositions /\ (mt_pos t = None \/ exists sh, mt_pos t = Some sh /\ nonempty_arr sh = false)) \/
  (e = EPositionsDim /\ refs <> [] /\ exists sh, mt_pos t = Some sh /\
     existsb (fun a => negb (Nat.eqb (second_dim sh) (rank a))) refs = true) \/
  (e = EPositionsExtents /\ refs <> [] /\ exists sh esh, mt_pos t = Some sh /\ mt_ext t = Some esh /\
     nonempty_arr esh = true /\ shape_eqb sh esh = false) \/
  (e = EExtentsDim /\ refs <> [] /\ exists esh, mt_ext t = Some esh /\ nonempty_arr esh = true /\
     existsb (fun a => negb (Nat.eqb (second_dim esh) (rank a))) refs = true) \/
  (e = EUnitsCount /\ refs <> [] /\ existsb (fun a => negb (Nat.eqb (length (dim_units a)) (length (mt_units t)))) refs = true) \/
  (e = EUnitsIncompatible /\ refs <> [] /\ units_match (mt_units t) (map dim_units refs) = false) \/
  (e = EUnitNotSI /\ existsb (fun u => match u with [] => false | _ => negb (is_si u) end) (mt_units t) = true).
Proof.
  intros refs. unfold check_mtag, check_units, check_unit_si. fold refs.
  destruct (mt_pos t) as [sh|] eqn:EP; destruct (mt_ext t) as [esh|] eqn:EX;
  destruct (existsb (fun u => match u with [] => false | _ => negb (is_si u) end) (mt_units t)) eqn:E7;
  destruct (existsb (fun a => negb (Nat.eqb (length (dim_units a)) (length (mt_units t)))) refs) eqn:E6;
  destruct (units_match (mt_units t) (map dim_units refs)) eqn:E8;
  try (destruct (nonempty_arr sh) eqn:N1);
  try (destruct (existsb (fun a => negb (Nat.eqb (second_dim sh) (rank a))) refs) eqn:E2);
  try (destruct (nonempty_arr esh) eqn:N2);
  try (destruct (existsb (fun a => negb (Nat.eqb (second_dim esh) (rank a))) refs) eqn:E5);
  try (destruct (shape_eqb sh esh) eqn:E4);
  destruct refs as [|a0 r0] eqn:ER; cbn [app]; rewrite ?app_nil_r.
  all: try (cbn in E2; discriminate); try (cbn in E5; discriminate); try (cbn in E6; discriminate); try (cbn in E8; discriminate).
  all: try (assert (NE : a0 :: r0 <> []) by discriminate).
  all: split; intros H;
    [ repeat rewrite in_app_iff in H; split_ors; subst; try discriminate; try congruence; eauto 14
    | repeat match goal with
             | H : _ \/ _ |- _ => destruct H
             | H : _ /\ _ |- _ => destruct H
             | H : exists _, _ |- _ => destruct H
             | H : Some _ = Some _ |- _ => injection H as H; subst
             end; subst; try discriminate; try congruence;
      repeat rewrite in_app_iff; cbn [In]; auto 12 ].
Qed.

(* the boolean "some reference ..." conditions, spelled out *)
Lemma some_ref_differs (p : arr -> nat) n refs :
  existsb (fun a => negb (Nat.eqb n (p a))) refs = true <-> exists a, In a refs /\ p a <> n.
Proof. rewrite existsb_exists. split; intros (a & Ha & H); exists a; split; auto.
  - apply negb_true_iff, Nat.eqb_neq in H. auto.
  - apply negb_true_iff, Nat.eqb_neq. auto. Qed.
Lemma some_unit_not_si units :
  existsb (fun u => match u with [] => false | _ => negb (is_si u) end) units = true <->
  exists u, In u units /\ u <> [] /\ is_si u = false.
Proof. rewrite existsb_exists. split; intros (u & Hu & H); exists u; split; auto.
  - destruct u; [discriminate|]. split; [discriminate|]. now apply negb_true_iff.
  - destruct H as [Hn Hs]. destruct u; [contradiction|]. now apply negb_true_iff. Qed.
