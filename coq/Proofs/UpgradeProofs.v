(* Proofs/UpgradeProofs.v -- C18: the version is raised last, the upgrade is resumable after any
   prefix of micro-steps, idempotent, content preserving, and its result opens for writing. *)
From NixV Require Import Base.Prelude Gen.FileConsts Pure.Version Pure.Upgrade Proofs.VersionProofs.
From Coq Require Import Lia.
Open Scope Z_scope.

Lemma run_app f a b : run f (a ++ b) = run (run f a) b. Proof. apply fold_left_app. Qed.

Lemma tuple_ge_refl l : tuple_ge l l = true.
Proof. induction l as [|x l IH]; [reflexivity|]. cbn. rewrite Z.ltb_irrefl. exact IH. Qed.
Lemma lib_up_to_date h p d : up_to_date (mkU lib_version h p d) = true.
Proof. unfold up_to_date. cbn [ver]. apply tuple_ge_refl. Qed.

Lemma exec_ver f s : s <> StVer -> ver (exec f s) = ver f.
Proof. destruct s; cbn; congruence. Qed.

Definition body (f : ufile) : list mstep :=
  (if has_id f then [] else [StId]) ++ map StProp (idx_where is_old (props f) 0)
  ++ map StDim (idx_where is_alias (dims f) 0).
Lemma collect_body f : up_to_date f = false -> collect f = body f ++ [StVer].
Proof. intros H. unfold collect, body. rewrite H. rewrite <- !app_assoc. reflexivity. Qed.
Lemma body_no_ver f : ~ In StVer (body f).
Proof.
  unfold body. rewrite !in_app_iff. intros [H1|[H1|H1]].
  - destruct (has_id f); cbn in H1; intuition congruence.
  - apply in_map_iff in H1. destruct H1 as (x & Hx & _). discriminate.
  - apply in_map_iff in H1. destruct H1 as (x & Hx & _). discriminate.
Qed.

(* the header is touched only by the last step: after ANY proper prefix of the upgrade the file
   still carries its old version (and is therefore still recognised as old) *)
Theorem version_last f pre post : up_to_date f = false -> collect f = pre ++ post -> post <> [] ->
  ver (run f pre) = ver f.
Proof.
  intros Hv H Hp. rewrite (collect_body f Hv) in H.
  assert (Hn : ~ In StVer pre).
  { intro Hin. destruct (exists_last Hp) as (post' & lastp & ->). rewrite app_assoc in H.
    apply app_inj_tail in H. destruct H as [E _]. apply (body_no_ver f). rewrite E.
    apply in_or_app. left. exact Hin. }
  clear H Hp Hv. revert f. induction pre as [|s pre IH]; intros f; [reflexivity|].
  change (run f (s :: pre)) with (run (exec f s) pre).
  rewrite IH by (intro; apply Hn; right; assumption).
  apply exec_ver. intro; subst; apply Hn; left; reflexivity.
Qed.

Lemma conv_p_id p : is_old p = false -> conv_p p = p. Proof. destruct p; cbn; [discriminate | reflexivity]. Qed.
Lemma conv_d_id d : is_alias d = false -> conv_d d = d. Proof. destruct d; cbn; congruence. Qed.
Lemma conv_p_idem p : conv_p (conv_p p) = conv_p p.
Proof. destruct p as [v u d x|v u d ua ud]; cbn; [destruct (derive x); reflexivity | reflexivity]. Qed.
Lemma conv_d_idem d : conv_d (conv_d d) = conv_d d. Proof. destruct d; reflexivity. Qed.

Fixpoint upd_from {X} (g : X -> X) (l : list X) (is : list nat) : list X :=
  match is with [] => l | i :: r => upd_from g (upd l i g) r end.
Lemma upd_from_cons_shift {X} (g : X -> X) x l is : upd_from g (x :: l) (map S is) = x :: upd_from g l is.
Proof. revert l; induction is as [|i r IH]; intros l; cbn; [reflexivity|]. now rewrite IH. Qed.
Lemma idx_where_shift {X} (p : X -> bool) l i : idx_where p l (S i) = map S (idx_where p l i).
Proof. revert i; induction l as [|x t IH]; intros i; cbn; [reflexivity|]. rewrite map_app, IH. destruct (p x); reflexivity. Qed.
Lemma upd_all {X} (p : X -> bool) (g : X -> X) l : (forall x, p x = false -> g x = x) ->
  upd_from g l (idx_where p l 0) = map g l.
Proof.
  intros Hg. induction l as [|x t IH]; cbn; [reflexivity|].
  rewrite idx_where_shift. destruct (p x) eqn:Px; cbn.
  - rewrite upd_from_cons_shift, IH. reflexivity.
  - rewrite upd_from_cons_shift, IH, (Hg x Px). reflexivity.
Qed.
Lemma run_props f is : run f (map StProp is) = mkU (ver f) (has_id f) (upd_from conv_p (props f) is) (dims f).
Proof. revert f; induction is as [|i r IH]; intros f; cbn; [destruct f; reflexivity|]. unfold run in IH. rewrite IH. reflexivity. Qed.
Lemma run_dims f is : run f (map StDim is) = mkU (ver f) (has_id f) (props f) (upd_from conv_d (dims f) is).
Proof. revert f; induction is as [|i r IH]; intros f; cbn; [destruct f; reflexivity|]. unfold run in IH. rewrite IH. reflexivity. Qed.

(* an uninterrupted upgrade of an old file produces the intended file: every property and
   alias dimension converted (content kept, see conv_p), id present, library version *)
Theorem upgrade_final f : up_to_date f = false -> upgrade f = final f.
Proof.
  intros Hv. unfold upgrade, collect. rewrite Hv.
  rewrite !run_app, run_dims, run_props. cbn [props dims ver has_id run fold_left exec].
  destruct (has_id f) eqn:Hi; cbn [run fold_left exec props dims has_id ver];
    rewrite (upd_all is_old conv_p (props f) conv_p_id), (upd_all is_alias conv_d (dims f) conv_d_id);
    unfold final; rewrite ?Hi; reflexivity.
Qed.

Lemma map_upd {X} (g : X -> X) l i : (forall x, g (g x) = g x) -> map g (upd l i g) = map g l.
Proof. intros Hg. revert i; induction l as [|x t IH]; intros [|i]; cbn; try reflexivity; [now rewrite Hg | now rewrite IH]. Qed.
Lemma final_exec f s : final (exec f s) = final f.
Proof.
  destruct s; unfold final; cbn; try reflexivity.
  - rewrite map_upd; [reflexivity | apply conv_p_idem].
  - rewrite map_upd; [reflexivity | apply conv_d_idem].
Qed.
Lemma final_run f l : final (run f l) = final f.
Proof. revert f; induction l as [|s l IH]; intros f; cbn; [reflexivity|]. unfold run in IH. now rewrite IH, final_exec. Qed.

Lemma up_to_date_ver f g : ver g = ver f -> up_to_date g = up_to_date f.
Proof. unfold up_to_date. intros ->. reflexivity. Qed.

(* interruption after ANY prefix of micro-steps, then a fresh upgrade = the uninterrupted one *)
Theorem resume f pre post : up_to_date f = false -> collect f = pre ++ post ->
  upgrade (run f pre) = upgrade f.
Proof.
  intros Hv Hc. destruct post as [|p post'].
  - rewrite app_nil_r in Hc. rewrite <- Hc. fold (upgrade f). rewrite (upgrade_final f Hv).
    unfold upgrade, collect, final. rewrite lib_up_to_date. reflexivity.
  - rewrite (upgrade_final f Hv). rewrite upgrade_final.
    + apply final_run.
    + rewrite (up_to_date_ver f); [exact Hv|].
      apply (version_last f pre (p :: post') Hv Hc). discriminate.
Qed.

Theorem idempotent f : upgrade (upgrade f) = upgrade f.
Proof.
  destruct (up_to_date f) eqn:Hv.
  - unfold upgrade at 2. unfold collect. rewrite Hv. cbn. unfold upgrade, collect. rewrite Hv. reflexivity.
  - rewrite (upgrade_final f Hv). unfold upgrade, collect, final. rewrite lib_up_to_date. reflexivity.
Qed.
Theorem up_to_date_untouched f : up_to_date f = true -> upgrade f = f /\ collect f = [].
Proof. intros Hv. unfold upgrade, collect. rewrite Hv. split; reflexivity. Qed.
Theorem nothing_left f : collect (upgrade f) = [].
Proof.
  destruct (up_to_date f) eqn:Hv.
  - unfold upgrade, collect. rewrite Hv. cbn. unfold collect. now rewrite Hv.
  - rewrite (upgrade_final f Hv). unfold collect, final. rewrite lib_up_to_date. reflexivity.
Qed.

(* the result opens for writing (C11's gate), provided the library's own version is one that
   requires... whatever it requires: the id is there *)
Theorem openable f : up_to_date f = false -> length lib_version = 3%nat ->
  check_header RW (header_of (upgrade f)) = Opened.
Proof.
  intros Hv Hl. rewrite (upgrade_final f Hv). unfold header_of, final. cbn [ver has_id].
  rewrite lib_shape. apply gate_rw. split; [symmetry; apply lib_shape | reflexivity].
Qed.

(* content: values of every property are what they were; unit / definition kept when set *)
Definition values_of (p : pstate) : list Z := match p with POld v _ _ _ => v | PNew v _ _ _ _ => v end.
Theorem content_kept f : up_to_date f = false ->
  map values_of (props (upgrade f)) = map values_of (props f) /\
  length (dims (upgrade f)) = length (dims f) /\
  Forall (fun p => is_old p = false) (props (upgrade f)) /\
  Forall (fun d => is_alias d = false) (dims (upgrade f)).
Proof.
  intros Hv. rewrite (upgrade_final f Hv). unfold final. cbn [props dims].
  split; [|split; [|split]].
  - rewrite map_map. apply map_ext. intros [v u d x|v u d ua ud]; cbn; [destruct (derive x)|]; reflexivity.
  - apply map_length.
  - apply Forall_forall. intros p Hin. apply in_map_iff in Hin. destruct Hin as [q [<- _]].
    destruct q as [v u d x|v u d ua ud]; cbn; [destruct (derive x)|]; reflexivity.
  - apply Forall_forall. intros p Hin. apply in_map_iff in Hin. destruct Hin as [q [<- _]].
    destruct q; reflexivity.
Qed.

Example upgrade_example :
  let mv : str := [109; 86]%N in let x : str := [120]%N in let e : str := @nil N in
  let f := mkU [1; 1; 0] false
             [POld [1; 2] (Some mv) None (mkX [0; 0] [e; e] [e; e] [e; e] [e; e]);
              POld [7] None None (mkX [3] [x] [e] [e] [e])]
             [DAlias; DTicks] in
  up_to_date f = false /\ length (collect f) = 5%nat /\
  props (upgrade f) = [PNew [1; 2] (Some mv) None None [];
                       PNew [7] None None (Some 3) [(1%N, DS [x])]].
Proof. vm_compute. repeat split. Qed.
