(* Proofs/UnitsProofs.v -- lemmas behind Props/C09.v.  Never imported by a model file. *)
From NixV Require Import Base.Prelude Pure.Regex Gen.Units Pure.Units.
From Coq Require Import Lia.
Open Scope N_scope.

(* ------------------------------------------------------------------ the SI prefix table *)
(* The 20 SI prefixes with their decimal exponents (BIPM brochure, 8th ed.), written here as
   the specification the translated PREFIX_FACTORS / PREFIXES are checked against. *)
Definition si_prefix_table : list (str * Z) :=
  [ ([89]%N, (24)%Z);
    ([90]%N, (21)%Z);
    ([69]%N, (18)%Z);
    ([80]%N, (15)%Z);
    ([84]%N, (12)%Z);
    ([71]%N, (9)%Z);
    ([77]%N, (6)%Z);
    ([107]%N, (3)%Z);
    ([104]%N, (2)%Z);
    ([100;97]%N, (1)%Z);
    ([100]%N, (-1)%Z);
    ([99]%N, (-2)%Z);
    ([109]%N, (-3)%Z);
    ([117]%N, (-6)%Z);
    ([110]%N, (-9)%Z);
    ([112]%N, (-12)%Z);
    ([102]%N, (-15)%Z);
    ([97]%N, (-18)%Z);
    ([122]%N, (-21)%Z);
    ([121]%N, (-24)%Z) ].

Definition table_ok : bool :=
  forallb (fun pe => opt_eqb Z.eqb (lookup_exp (fst pe) prefix_exps) (Some (snd pe))) si_prefix_table
  && forallb (fun p => mem_str p (map fst si_prefix_table)) prefixes
  && forallb (fun pe => mem_str (fst pe) prefixes) si_prefix_table
  && Nat.eqb (length prefix_exps) 20 && Nat.eqb (length prefixes) 20.

Lemma table_ok_true : table_ok = true.
Proof. vm_compute. reflexivity. Qed.

Lemma mem_str_In x l : mem_str x l = true <-> In x l.
Proof.
  unfold mem_str. rewrite existsb_exists. split.
  - intros [y [Hy E]]. apply streq_eq in E. subst. exact Hy.
  - intros H. exists x. split; [exact H | apply streq_refl].
Qed.

Lemma table_is_SI :
  (forall p e, In (p, e) si_prefix_table -> lookup_exp p prefix_exps = Some e) /\
  (forall p, In p prefixes <-> exists e, In (p, e) si_prefix_table) /\
  length prefixes = 20%nat.
Proof.
  pose proof table_ok_true as H. unfold table_ok in H.
  apply andb_prop in H. destruct H as [H HE].
  apply andb_prop in H. destruct H as [H HD].
  apply andb_prop in H. destruct H as [H HC].
  apply andb_prop in H. destruct H as [HA HB].
  split; [|split; [|apply Nat.eqb_eq; exact HE]].
  - intros p e Hin. rewrite forallb_forall in HA. specialize (HA _ Hin). cbn [fst snd] in HA.
    destruct (lookup_exp p prefix_exps) as [z|]; cbn [opt_eqb] in HA; [|discriminate].
    apply Z.eqb_eq in HA. congruence.
  - intros p. split.
    + intros Hin. rewrite forallb_forall in HB. specialize (HB _ Hin).
      apply mem_str_In in HB. apply in_map_iff in HB. destruct HB as [[p' e] [E Hin']].
      cbn in E. subst. exists e. exact Hin'.
    + intros [e Hin]. rewrite forallb_forall in HC. specialize (HC _ Hin). cbn [fst] in HC.
      apply mem_str_In in HC. exact HC.
Qed.

(* -------------------------------------------------- exhaustive sweep of the atomic grammar *)
Definition triples : list (str * str * str) :=
  flat_map (fun p => flat_map (fun u => map (fun k => (p, u, k)) powers) units) opt_prefixes.

Definition ok_triple (t : str * str * str) : bool :=
  let '(p, u, k) := t in
  let s := p ++ u ++ k in
  is_atomic s && is_si s &&
  (let '(p', u', k') := split s in streq p p' && streq u u' && streq (tl k) k').

Lemma sweep_triples : forallb ok_triple triples = true.
Proof. vm_compute. reflexivity. Qed.

Lemma in_triples p u k :
  In p opt_prefixes -> In u units -> In k powers -> In (p, u, k) triples.
Proof.
  intros Hp Hu Hk. unfold triples. apply in_flat_map. exists p. split; [exact Hp|].
  apply in_flat_map. exists u. split; [exact Hu|]. apply in_map. exact Hk.
Qed.

Lemma split_exact p u k :
  In p opt_prefixes -> In u units -> In k powers ->
  is_atomic (p ++ u ++ k) = true /\ is_si (p ++ u ++ k) = true /\
  split (p ++ u ++ k) = (p, u, tl k).
Proof.
  intros Hp Hu Hk. pose proof sweep_triples as S. rewrite forallb_forall in S.
  specialize (S _ (in_triples _ _ _ Hp Hu Hk)). unfold ok_triple in S.
  destruct (split (p ++ u ++ k)) as [[p' u'] k'].
  apply andb_prop in S. destruct S as [SA SB].
  apply andb_prop in SA. destruct SA as [SA1 SA2].
  apply andb_prop in SB. destruct SB as [SB SB3].
  apply andb_prop in SB. destruct SB as [SB1 SB2].
  apply streq_eq in SB1, SB2, SB3. subst. auto.
Qed.

(* ---------------------------------------------------------------- facts about the tables *)
Definition prefix_facts : bool :=
  forallb (fun p => nonempty p && is_some (lookup_exp p prefix_exps)) prefixes
  && negb (is_some (lookup_exp [] prefix_exps)).
Lemma prefix_facts_true : prefix_facts = true.
Proof. vm_compute. reflexivity. Qed.

Lemma prefix_nonempty p : In p prefixes -> nonempty p = true /\ lookup_exp p prefix_exps = Some (pexp p).
Proof.
  intros Hin. pose proof prefix_facts_true as H. unfold prefix_facts in H.
  apply andb_prop in H. destruct H as [H _]. rewrite forallb_forall in H. specialize (H _ Hin).
  apply andb_prop in H. destruct H as [H1 H2]. split; [exact H1|].
  unfold pexp. destruct (lookup_exp p prefix_exps); [reflexivity | discriminate].
Qed.

Definition power_facts : bool :=
  forallb (fun k => match k with
                    | [] => true
                    | _ => nonempty (tl k) && is_some (parse_int (tl k))
                    end) powers
  && forallb (fun k1 => forallb (fun k2 => streq k1 k2 || negb (streq (tl k1) (tl k2))) powers) powers.
Lemma power_facts_true : power_facts = true.
Proof. vm_compute. reflexivity. Qed.

Lemma power_parse k : In k powers ->
  (k = [] /\ tl k = []) \/ (nonempty (tl k) = true /\ parse_int (tl k) = Some (pow_val k)).
Proof.
  intros Hin. pose proof power_facts_true as H. unfold power_facts in H.
  apply andb_prop in H. destruct H as [H _]. rewrite forallb_forall in H. specialize (H _ Hin).
  destruct k as [|c k']; [left; auto|]. right.
  apply andb_prop in H. destruct H as [H1 H2]. split; [exact H1|].
  unfold pow_val. destruct (parse_int (tl (c :: k'))); [reflexivity | discriminate].
Qed.

Lemma power_tl_inj k1 k2 : In k1 powers -> In k2 powers -> tl k1 = tl k2 -> k1 = k2.
Proof.
  intros H1 H2 E. pose proof power_facts_true as H. unfold power_facts in H.
  apply andb_prop in H. destruct H as [_ H]. rewrite forallb_forall in H. specialize (H _ H1).
  rewrite forallb_forall in H. specialize (H _ H2). apply orb_prop in H. destruct H as [H|H].
  - apply streq_eq. exact H.
  - rewrite E, streq_refl in H. discriminate.
Qed.

Lemma streq_false a b : a <> b -> streq a b = false.
Proof. intros H. destruct (streq a b) eqn:E; [apply streq_eq in E; contradiction | reflexivity]. Qed.

(* ------------------------------------------------------------------------- scalable/scaling *)
Lemma scalable_same p1 p2 u k :
  In p1 opt_prefixes -> In p2 opt_prefixes -> In u units -> In k powers ->
  scalable (p1 ++ u ++ k) (p2 ++ u ++ k) = true.
Proof.
  intros H1 H2 Hu Hk.
  destruct (split_exact _ _ _ H1 Hu Hk) as [_ [S1 E1]].
  destruct (split_exact _ _ _ H2 Hu Hk) as [_ [S2 E2]].
  unfold scalable. rewrite S1, S2, E1, E2. cbn. rewrite !streq_refl. reflexivity.
Qed.

Lemma scalable_diff p1 u1 k1 p2 u2 k2 :
  In p1 opt_prefixes -> In p2 opt_prefixes -> In u1 units -> In u2 units ->
  In k1 powers -> In k2 powers -> (u1 <> u2 \/ k1 <> k2) ->
  scalable (p1 ++ u1 ++ k1) (p2 ++ u2 ++ k2) = false.
Proof.
  intros H1 H2 Hu1 Hu2 Hk1 Hk2 D.
  destruct (split_exact _ _ _ H1 Hu1 Hk1) as [_ [S1 E1]].
  destruct (split_exact _ _ _ H2 Hu2 Hk2) as [_ [S2 E2]].
  unfold scalable. rewrite S1, S2, E1, E2. cbn.
  destruct D as [D|D].
  - rewrite (streq_false _ _ D). reflexivity.
  - assert (tl k1 <> tl k2) as D' by (intro E; apply D; apply power_tl_inj; assumption).
    rewrite (streq_false _ _ D'). rewrite orb_true_r. reflexivity.
Qed.

Lemma in_opt_prefixes p : In p opt_prefixes -> p = [] \/ In p prefixes.
Proof. unfold opt_prefixes. cbn. intros [H|H]; auto. Qed.

Lemma pexp_nil : pexp [] = 0%Z.
Proof. vm_compute. reflexivity. Qed.

Lemma scaling_spec p1 p2 u k :
  In p1 opt_prefixes -> In p2 opt_prefixes -> In u units -> In k powers ->
  scaling (p1 ++ u ++ k) (p2 ++ u ++ k) = SOk ((pexp p1 - pexp p2) * pow_val k).
Proof.
  intros H1 H2 Hu Hk.
  pose proof (scalable_same _ _ _ _ H1 H2 Hu Hk) as Sc.
  destruct (split_exact _ _ _ H1 Hu Hk) as [_ [_ E1]].
  destruct (split_exact _ _ _ H2 Hu Hk) as [_ [_ E2]].
  unfold scaling. rewrite Sc, E1, E2. cbn [negb]. rewrite streq_refl, andb_true_r.
  destruct (streq p1 p2) eqn:Ep.
  { apply streq_eq in Ep. subst. f_equal. lia. }
  assert (Hfin : forall e : Z,
             (if nonempty (tl k)
              then match parse_int (tl k) with Some p => SOk (e * p) | None => SError end
              else SOk e) = SOk (e * pow_val k)).
  { intros e. destruct (power_parse _ Hk) as [[-> _]|[Hn Hp]].
    - cbn. f_equal. lia.
    - rewrite Hn, Hp. reflexivity. }
  destruct (in_opt_prefixes _ H1) as [->|P1]; destruct (in_opt_prefixes _ H2) as [->|P2].
  - rewrite streq_refl in Ep. discriminate.
  - destruct (prefix_nonempty _ P2) as [N2 L2]. cbn [nonempty negb andb]. rewrite N2, L2.
    cbn [nonempty negb andb option_map]. rewrite Hfin, pexp_nil. f_equal; lia.
  - destruct (prefix_nonempty _ P1) as [N1 L1]. cbn [nonempty negb andb]. rewrite N1, L1.
    cbn [nonempty negb andb option_map]. rewrite Hfin, pexp_nil. f_equal; lia.
  - destruct (prefix_nonempty _ P1) as [N1 L1]. destruct (prefix_nonempty _ P2) as [N2 L2].
    rewrite N1, N2, L1, L2. cbn [nonempty negb andb option_map]. rewrite Hfin. reflexivity.
Qed.

Lemma scaling_compose p1 p2 p3 u k x y :
  In p1 opt_prefixes -> In p2 opt_prefixes -> In p3 opt_prefixes -> In u units -> In k powers ->
  scaling (p1 ++ u ++ k) (p2 ++ u ++ k) = SOk x ->
  scaling (p2 ++ u ++ k) (p3 ++ u ++ k) = SOk y ->
  scaling (p1 ++ u ++ k) (p3 ++ u ++ k) = SOk (x + y).
Proof.
  intros H1 H2 H3 Hu Hk. rewrite !scaling_spec by assumption.
  intros E1 E2. injection E1 as <-. injection E2 as <-. f_equal. lia.
Qed.

Lemma scaling_invert p1 p2 u k x :
  In p1 opt_prefixes -> In p2 opt_prefixes -> In u units -> In k powers ->
  scaling (p1 ++ u ++ k) (p2 ++ u ++ k) = SOk x ->
  scaling (p2 ++ u ++ k) (p1 ++ u ++ k) = SOk (- x).
Proof.
  intros H1 H2 Hu Hk. rewrite !scaling_spec by assumption.
  intros E1. injection E1 as <-. f_equal. lia.
Qed.

Lemma scaling_refused p1 u1 k1 p2 u2 k2 :
  In p1 opt_prefixes -> In p2 opt_prefixes -> In u1 units -> In u2 units ->
  In k1 powers -> In k2 powers -> (u1 <> u2 \/ k1 <> k2) ->
  scalable (p1 ++ u1 ++ k1) (p2 ++ u2 ++ k2) = false /\
  scaling (p1 ++ u1 ++ k1) (p2 ++ u2 ++ k2) = SRefused.
Proof.
  intros. assert (S : scalable (p1 ++ u1 ++ k1) (p2 ++ u2 ++ k2) = false)
    by (apply scalable_diff; assumption).
  split; [exact S|]. unfold scaling. rewrite S. reflexivity.
Qed.

(* non-vacuity: the hypotheses are met by mV^2 / kV^2 (and the value is 10^-12) *)
Example scaling_example :
  In [109] opt_prefixes /\ In [107] opt_prefixes /\ In [86] units /\ In [94;50] powers /\
  scaling [109;86;94;50] [107;86;94;50] = SOk (-12).
Proof. vm_compute. intuition. Qed.
