"""The canonical walk of a NIX file through the PUBLIC API, as the token stream that
coq/Nix/Observe.v computes from the store model, and its digest.

tokens:  int -> WN,  None -> WNone,  str -> text (a text equal to a known entity id is an id
token and is renamed by first appearance over the whole trace, exactly as in Observe.v)."""

import re

UUID_RE = re.compile(r"^[0-9a-f]{8}-[0-9a-f]{4}-[0-9a-f]{4}-[0-9a-f]{4}-[0-9a-f]{12}\Z")
HP = 2305843009213693951
HB = 1000003
OPEN, CLOSE, ERR = -1, -2, -3
KIND = {"File": 100, "Block": 101, "Group": 102, "DataArray": 103, "Tag": 104, "MultiTag": 105,
        "Feature": 106, "Source": 107, "Section": 108, "Property": 109, "DataFrame": 110}


def hstep(h, v):
    return (h * HB + v + 7) % HP


class Digest(object):
    """threads the id renaming table through a trace"""

    def __init__(self):
        self.idmap = {}
        self.known_ids = set()

    def hash_stream(self, toks):
        h = 0
        for t in toks:
            if t is None:
                h = hstep(h, -13)
            elif isinstance(t, bool):
                raise TypeError("bool token")
            elif isinstance(t, int):
                h = hstep(hstep(h, -12), t)
            elif isinstance(t, str):
                if t in self.known_ids:
                    v = self.idmap.get(t)
                    if v is None:
                        v = len(self.idmap)
                        self.idmap[t] = v
                    h = hstep(hstep(h, -14), v)
                else:
                    h = hstep(h, -11)
                    for ch in t:
                        h = hstep(h, ord(ch))
            else:
                raise TypeError("bad token %r" % (t,))
        return h


def safe(fn, default=ERR):
    try:
        return fn()
    except Exception:
        return default


def ints(seq):
    out = []
    for x in seq:
        out.append(int(round(float(x))))
    return out


def payload(vals):
    """len :: values, or None when there is nothing"""
    try:
        vals = list(vals)
    except Exception:
        return [ERR]
    if len(vals) == 0:
        return [None]
    return [len(vals)] + ints(vals)


class Walker(object):
    def __init__(self, with_times, ids):
        self.with_times = with_times
        self.ids = ids          # set collecting every id seen in id positions
        self.defined = set()    # ids of entities met in their owning container
        self.stamps = {}        # id -> [created_at, updated_at] (with_times only)
        self.dup_ids = []       # ids met twice in owning positions
        self.bad_ids = []       # ids that are not well-formed UUIDs
        self.linked = []        # (owner block id or None, role, target id) of every link met
        self.block_defs = {}    # block id -> ids defined inside that block
        self.cur_block = None
        self.section_ids = set()
        self.no_subsections = False

    def times(self, e):
        if not self.with_times:
            return []
        t = [safe(lambda: int(e.created_at)), safe(lambda: int(e.updated_at))]
        i = safe(lambda: e.id, None)
        if isinstance(i, str):
            self.stamps[i] = t
        return t

    def idtok(self, e):
        i = safe(lambda: e.id, None)
        if isinstance(i, str):
            self.ids.add(i)
        return i

    def define(self, e):
        i = safe(lambda: e.id, None)
        if isinstance(i, str):
            if i in self.defined:
                self.dup_ids.append(i)
            self.defined.add(i)
            if not UUID_RE.match(i):
                self.bad_ids.append(i)

    def header(self, kind, e):
        i = safe(lambda: e.id, None)
        if isinstance(i, str):
            if i in self.defined:
                self.dup_ids.append(i)
            self.defined.add(i)
            if not UUID_RE.match(i):
                self.bad_ids.append(i)
            if self.cur_block is not None:
                self.block_defs.setdefault(self.cur_block, set()).add(i)
        return [OPEN, KIND[kind], safe(lambda: e.name), self.idtok(e), safe(lambda: e.type),
                safe(lambda: e.definition)] + self.times(e)

    def link(self, fn, role="single"):
        """id of the target of a single link, or None"""
        try:
            x = fn()
        except Exception:
            return [ERR]
        if x is None:
            return [None]
        t = self.idtok(x)
        self.linked.append((self.cur_block, role, t))
        return [t]

    def linklist(self, fn):
        try:
            items = list(fn())
        except Exception:
            return [OPEN, ERR, CLOSE]
        out = [OPEN]
        for x in items:
            t = self.idtok(x)
            self.linked.append((self.cur_block, "list", t))
            out.append(t)
        return out + [CLOSE]

    def children(self, fn, f):
        try:
            items = list(fn())
        except Exception:
            return [OPEN, ERR, CLOSE]
        out = [OPEN]
        for x in items:
            out += f(x)
        return out + [CLOSE]

    def feature(self, ft):
        self.define(ft)

        def target_kind():
            # the kind of object the feature presents as its data; when the data link is gone (the linked entity was
            # deleted) the kind the file still records
            try:
                return type(ft.data).__name__
            except Exception:
                return ft._h5group.get_attr("target_type")
        return [OPEN, KIND["Feature"], self.idtok(ft), safe(lambda: ft.link_type.value)] + \
            self.link(lambda: ft.data, "featdata") + [safe(target_kind)] + self.times(ft) + [CLOSE]

    def group(self, g):
        return self.header("Group", g) + self.link(lambda: g.metadata) + self.linklist(lambda: g.data_arrays) + \
            self.linklist(lambda: g.tags) + self.linklist(lambda: g.multi_tags) + self.linklist(lambda: g.sources) + \
            self.linklist(lambda: g.data_frames) + [CLOSE]

    def data_frame(self, d):
        def col():
            rows = d[:] if len(d) else []
            return payload([r[0] for r in rows])
        return self.header("DataFrame", d) + safe(col, [ERR]) + self.link(lambda: d.metadata) + [CLOSE]

    def data_array(self, a):
        return self.header("DataArray", a) + [safe(lambda: a.label), safe(lambda: a.unit)] + \
            safe(lambda: payload(a[:].ravel()), [ERR]) + self.link(lambda: a.metadata) + \
            self.linklist(lambda: a.sources) + [CLOSE]

    def tag(self, t):
        return self.header("Tag", t) + safe(lambda: payload(t.position), [ERR]) + self.link(lambda: t.metadata) + \
            self.linklist(lambda: t.references) + self.linklist(lambda: t.sources) + \
            self.children(lambda: t.features, self.feature) + [CLOSE]

    def multi_tag(self, t):
        def extents():
            return t.extents
        return self.header("MultiTag", t) + self.link(lambda: t.positions) + self.link(extents) + \
            self.link(lambda: t.metadata) + self.linklist(lambda: t.references) + self.linklist(lambda: t.sources) + \
            self.children(lambda: t.features, self.feature) + [CLOSE]

    def prop(self, p):
        self.define(p)
        return [OPEN, KIND["Property"], safe(lambda: p.name), self.idtok(p)] + \
            safe(lambda: payload(p.values), [ERR]) + self.times(p) + [CLOSE]

    def source(self, s):
        return self.header("Source", s) + self.link(lambda: s.metadata) + \
            self.children(lambda: s.sources, self.source) + [CLOSE]

    def section(self, s):
        i = safe(lambda: s.id, None)
        if isinstance(i, str):
            self.section_ids.add(i)
        return self.header("Section", s) + [safe(lambda: s.repository), safe(lambda: s.reference)] + \
            self.link(lambda: s.link) + self.children(lambda: s.props, self.prop) + \
            ([OPEN, CLOSE] if self.no_subsections else self.children(lambda: s.sections, self.section)) + [CLOSE]

    def block(self, b):
        self.cur_block = None
        r = self._block(b)
        self.cur_block = None
        return r

    def _block(self, b):
        hdr = self.header("Block", b)
        md = self.link(lambda: b.metadata)
        self.cur_block = safe(lambda: b.id, None)
        return hdr + md + self.children(lambda: b.groups, self.group) + \
            self.children(lambda: b.data_arrays, self.data_array) + self.children(lambda: b.tags, self.tag) + \
            self.children(lambda: b.multi_tags, self.multi_tag) + self.children(lambda: b.sources, self.source) + \
            self.children(lambda: b.data_frames, self.data_frame) + [CLOSE]

    def file(self, f):
        ftimes = []
        if self.with_times:
            ftimes = [safe(lambda: int(f.created_at)), safe(lambda: int(f.updated_at))]
            self.stamps["file"] = ftimes
        return [OPEN, KIND["File"]] + ftimes + self.children(lambda: f.blocks, self.block) + \
            self.children(lambda: f.sections, self.section) + [CLOSE]


def walk(f, with_times, ids):
    return Walker(with_times, ids).file(f)


def walk_info(f, with_times, ids):
    """walk + link hygiene: links whose target is defined nowhere (dangling), and links inside a
    block (member lists, references, feature data, source lists) to entities of another block"""
    w = Walker(with_times, ids)
    toks = w.file(f)
    dangling = sorted(set(t for _, _, t in w.linked if isinstance(t, str) and t not in w.defined))
    cross = sorted(set(t for b, role, t in w.linked
                       if b is not None and role in ("list", "featdata") and isinstance(t, str) and t in w.defined
                       and t not in w.block_defs.get(b, set()) and not _is_section(w, t)))
    return toks, {"dangling": dangling, "cross_block": cross, "defined": len(w.defined), "_defined_set": w.defined,
                  "dup_ids": w.dup_ids, "bad_ids": w.bad_ids, "stamps": w.stamps}


def _is_section(w, t):
    return t in w.section_ids
