"""C15 -- calibration is applied on every read and never touches the stored values."""
import os
import random
import sys
from fractions import Fraction

sys.path.insert(0, os.path.dirname(os.path.dirname(os.path.abspath(__file__))))
import core  # noqa: E402
from coqlit import cQ, clist  # noqa: E402

ID = "C15"
THEOREMS = ["c15_horner", "c15_commute", "c15_no_calibration_identity", "c15_pointwise", "c15_origin_is_shift",
            "c15_constant_and_linear", "c15_trailing_zero", "c15_trailing_zero_needs_coeff", "c15_additive",
            "c15_length_and_trigger"]
HEADER = ("From Coq Require Import ZArith List QArith.\nFrom NixV Require Import Base.Prelude Pure.Slices Pure.SlicesCheck "
          "Pure.Array Pure.ArrayCheck.\nImport ListNotations.\n")
DTYPES = ["int8", "int16", "int32", "int64", "uint8", "uint16", "uint32", "float32", "float64"]


def ql(l):
    return clist([cQ(Fraction(*x)) for x in l], "Q")


def oq(x):
    return "(@None Q)" if x is None else "(Some %s)" % cQ(Fraction(*x))


def run(ctx):
    rnd = random.Random(ctx.seed)
    thorough = ctx.tier == "thorough"
    st = core.proof_stage(ctx, [], ["Pure/ArrayCheck.vo", "Props/C15.vo"], "Props/C15.v", THEOREMS)
    ctx.trusted_base = [
        "Coq 8.16.1 kernel; no native_compute",
        "hand-written model of DataArray._read_data's calibration (Pure/Array.v: subtract origin, Horner) over exact rationals, tied "
        "by correspondence on a dyadic grid where float64 Horner evaluation is exact (this run)",
        "IEEE rounding outside the dyadic grid is not modelled",
    ]
    ctx.assumptions = ["every property theorem: Closed under the global context"]
    dy = [Fraction(n, 4) for n in range(-8, 9)]
    cases = []
    for _ in range(2500 if thorough else 220):
        dt = rnd.choice(DTYPES)
        rank = rnd.randint(1, 3)
        shape = [rnd.randint(1, 4) for _ in range(rank)]
        n = 1
        for x in shape:
            n *= x
        if dt.startswith("float"):
            raw = [float(rnd.choice(dy)) for _ in range(n)]
        elif dt.startswith("uint"):
            raw = [rnd.randint(0, 12) for _ in range(n)]
        else:
            raw = [rnd.randint(-6, 12) for _ in range(n)]
        steps = []
        for _ in range(rnd.randint(1, 4)):
            k = rnd.randint(0, 5)
            coeffs = [rnd.choice(dy) for _ in range(k)]
            r = rnd.random()
            cspec = None if (k == 0 and r < 0.5) else [[c.numerator, c.denominator] for c in coeffs]
            o = rnd.choice([None, Fraction(0), rnd.choice(dy), rnd.choice(dy)])
            region = []
            window = []
            for ext in shape:
                a = rnd.randint(0, ext - 1)
                z = rnd.randint(a + 1, ext)
                region.append([a, z, rnd.choice([1, 1, 2])])
                wa = rnd.randint(0, ext - 1)
                window.append([wa, rnd.randint(1, ext - wa)])
            # which of the two attributes this step assigns, and in which order; the other one keeps its value
            steps.append({"coeffs": cspec, "origin": None if o is None else [o.numerator, o.denominator],
                          "order": rnd.choice(["co", "oc", "c", "o", "c", "o"]), "via": rnd.randint(0, 1), "ints": rnd.random() < 0.5, "region": region, "window": window})
        cases.append({"dtype": dt, "shape": shape, "raw": raw, "steps": steps})
    impl = ctx.run_impl_cases("impl_calib.py", cases, jobs=8, timeout=3000)
    import numpy as np
    terms, inputs, failures = [], [], []
    for c, r in zip(cases, impl):
        rawq = [[Fraction(x).numerator, Fraction(x).denominator] for x in c["raw"]]
        arr = np.arange(len(c["raw"])).reshape(c["shape"])
        cur_c, cur_o, hist = None, None, []
        prev_window = None
        for stp, got in zip(c["steps"], r["steps"]):
            # the calibration in force after this step: an attribute that is not assigned keeps its value
            if "c" in stp["order"]:
                cur_c = stp["coeffs"]
            if "o" in stp["order"]:
                cur_o = stp["origin"]
            hist.append([stp["order"], stp["coeffs"], stp["origin"]])
            stp = dict(stp, coeffs=cur_c, origin=cur_o)
            inp = {"dtype": c["dtype"], "shape": c["shape"], "raw": c["raw"], "assignments": list(hist), "coeffs": stp["coeffs"],
                   "origin": stp["origin"], "region": stp["region"], "window": stp["window"]}
            if "error" not in got:
                want_c = [list(x) for x in (cur_c or [])]
                if [list(x) for x in got["read_coeffs"]] != want_c or got["read_origin"] != (None if cur_o is None else list(cur_o)):
                    failures.append(("assigning one calibration attribute changed the other (or it does not read back)", inp,
                                     {"coefficients": got["read_coeffs"], "origin": got["read_origin"]}))
                    continue
            if "error" in got:
                failures.append(("setting the calibration was refused", inp, got))
                continue
            # other Python objects of the same array, and the views kept from the previous step
            if got["whole2"] != got["whole"] or got["whole2_dtype"] != got["whole_dtype"]:
                failures.append(("two objects of one array return differently calibrated values", inp,
                                 {"first": got["whole_dtype"], "second": got["whole2_dtype"]}))
            if got.get("kept") is not None and prev_window is not None:
                psel = arr[tuple(slice(a, a + e) for a, e in prev_window)]
                for kr in got["kept"]:
                    if kr != [got["whole"][i] for i in psel.ravel()]:
                        failures.append(("a view obtained before the calibration changed returns differently calibrated values", inp,
                                         {"previous_window": prev_window}))
            prev_window = stp["window"]
            coeffs = stp["coeffs"] or []
            calibrated = len(coeffs) > 0 or (stp["origin"] is not None and Fraction(*stp["origin"]) != 0)
            if not got["raw_same"]:
                failures.append(("setting the calibration changed the stored raw values", inp, None))
            want_dt = "float64" if calibrated else c["dtype"]
            if got["whole_dtype"] != want_dt or (got["view_dtype"] is not None and got["view_dtype"] != want_dt):
                failures.append(("result element type", inp, {"got": got["whole_dtype"], "want": want_dt}))
            # whole read against the model; the other read paths against the whole read (commutation)
            terms.append("(%s, %s, %s, %s)" % (ql(coeffs), oq(stp["origin"]), ql(rawq), ql(got["whole"])))
            inputs.append(inp)
            sel = arr[tuple(slice(a, z, s) for a, z, s in stp["region"])]
            if got["region"] != [got["whole"][i] for i in sel.ravel()] or got["region_shape"] != list(sel.shape):
                failures.append(("slicing and calibration do not commute (array[region])", inp, None))
            wsel = arr[tuple(slice(a, a + e) for a, e in stp["window"])]
            if got["view"] is not None and got["view"] != [got["whole"][i] for i in wsel.ravel()]:
                failures.append(("a view returns differently calibrated values", inp, None))
            for name, dr, ref in (("the array", got["direct"][0], got["whole"]), ("a view", got["direct"][1], got["view"]),
                                  ("a tagged view", got["direct"][2], got["tagged"])):
                if dr is not None and ref is not None and dr != ref:
                    failures.append(("read_direct on %s returns differently calibrated values than indexing" % name, inp,
                                     {"read_direct": dr if isinstance(dr, str) else dr[:4], "indexing": ref[:4]}))
            if got["tagged"] is not None and got["tagged"] != [got["whole"][i] for i in wsel.ravel()]:
                failures.append(("tagged data returns differently calibrated values", inp, {"tagged_shape": got["tagged_shape"]}))
    disagreements = []
    if core.vo_ok("Pure/ArrayCheck.v"):
        verd, errs = core.eval_verdicts(ctx.workdir, HEADER, "calib_case", "check_calib", terms, tag="cal", shard_size=300)
        for e in errs:
            st["broken"].append("model evaluation failed: %s" % e)
        for i, code in verd:
            if code & 2:
                failures.append(("a read does not return c0 + c1 (x-o) + c2 (x-o)^2 + ... of the raw values", inputs[i], None))
            elif code & 1:
                disagreements.append(inputs[i])
    else:
        st["broken"].append("model Pure/ArrayCheck.v does not build")
    if failures:
        failures.sort(key=lambda x: len(repr(x[1])))
        what, inp, r = failures[0]
        rp = ctx.write_replay("%s-seed%d.json" % (ID, ctx.seed), {"property": ID, "kind": what, "input": inp, "observed": r,
                                                                  "count": len(failures), "broken_obligations": st["broken"]})
        ctx.violation("%d calibrated reads violate C15, e.g. %s" % (len(failures), what), rp)
    elif disagreements:
        st["broken"].append("correspondence: model and implementation disagree on %d reads, e.g. %r" % (len(disagreements), disagreements[0]))
    ctx.coverage.update({
        "evaluations": len(terms), "distinct_nontrivial": len(set(repr(i) for i in inputs)),
        "rule": "arrays of 9 numeric element types, rank 1-3, raw values and coefficients on the quarter grid in [-2, 2] (float64 "
                "Horner exact), coefficient lists of length 0-5 incl. zeros and None, origin in {None, 0, non-zero}, 1-4 set/clear "
                "steps per array; per step: whole read vs the model (exact rationals) and vs the polynomial specification in "
                "Gallina; array[region], view[:] and tagged_data(0)[:] vs the whole read (commutation); the calibration is assigned "
                "(whole numbers as Python ints in half of the steps) through either of two Python objects of the array, the whole read is repeated through the other object, and the "
                "view and tagged view kept from the previous step are read again after the change; read_direct into a buffer on the "
                "array, the view and the tagged view against indexing; raw h5py read of the "
                "dataset (values and dtype) after every change; result dtype.",
        "disagreements": len(disagreements), "spec_failures": len(failures),
        "samples": [inputs[0]],
    })
    return st
