(* Proofs/NonVacuous.v -- the hypotheses of the conditional property theorems are met by concrete,
   non-trivial REACHABLE states (built by running API programs from the empty file). *)
From NixV Require Import Base.Prelude H5.Store Gen.Touch Nix.Api Nix.Observe Pure.DimLink Proofs.MonadLemmas Proofs.AtomicProofs Proofs.TimeProofs.
From Coq Require Import ZArith List. Import ListNotations.
Open Scope N_scope.

Definition nv_B := TS [66]. Definition nv_a := TS [97]. Definition nv_t := TS [116]. Definition nv_g := TS [103].
Definition nv_ops : list op :=
  [OCreate 0 CBlocks nv_B nv_t []; OCreate 1 CDataArrays nv_a nv_t [1; 2]%Z;
   OCreate 1 CGroups nv_g nv_t []; OAppend 3 LDataArrays 2;
   OCreate 1 CTags (TS [120]) nv_t [1]%Z; OAppend 4 LReferences 2].
Definition nv_st : st := fst (run_from nv_ops 1000%Z init_st).

(* all six calls of the prelude succeed *)
Example nv_reachable : forallb (fun r => match r with ROk _ => true | _ => false end) (snd (run_from nv_ops 1000%Z init_st)) = true
  /\ ro nv_st = false /\ auto nv_st = true.
Proof. vm_compute. repeat split. Qed.

(* C03 / C12: a duplicate create is refused in this state, with every hypothesis of c03_dup_refused / c12_creators *)
Example nv_dup_refused :
  exists p, nth_error (hs nv_st) (N.to_nat 1) = Some p /\ hk p = KBlock /\
            in_group (sto nv_st) (child (sto nv_st) (ha p) (TS (cname CDataArrays))) nv_a = true /\
            atomic_container (hk p) CDataArrays = true /\
            snd (api_create 1 CDataArrays nv_a nv_t [] 2000%Z nv_st) = inr EDup.
Proof. eexists. vm_compute. repeat split. Qed.

(* C04: deleting the array (member of a group, referenced by a tag) succeeds and really removes links *)
Example nv_delete :
  let r := api_delete 1 CDataArrays (KeyName nv_a) nv_st in
  snd r = inl tt /\
  (length (w_block false (view_of (sto (fst r))) 3) < length (w_block false (view_of (sto nv_st)) 3))%nat.
Proof. vm_compute. split; [reflexivity | repeat constructor]. Qed.

(* C11: a mutator changes the store of a writable session and fails on the read-only twin *)
Example nv_ro :
  let o := OCreate 1 CDataArrays (TS [98]) nv_t [3]%Z in
  length (nodes (sto (fst (exec o 2000%Z nv_st)))) <> length (nodes (sto nv_st)) /\
  snd (exec o 2000%Z (set_ro nv_st true)) = RErr EReadOnly /\ is_reopen o = false.
Proof. vm_compute. repeat split. discriminate. Qed.

(* C19: forced and automatic timestamps on a live handle *)
Example nv_force :
  exists p, nth_error (hs nv_st) (N.to_nat 2) = Some p /\ (ha p < length (nodes (sto nv_st)))%nat /\
            snd (api_force 2 true 5%Z nv_st) = inl tt /\
            touches (fst (attr_entry ADefinition)) (snd (attr_entry ADefinition)) = true /\
            snd (api_set_attr 2 ADefinition (Some nv_t) 2000%Z nv_st) = inl tt.
Proof. eexists. vm_compute. repeat split; repeat constructor. Qed.

(* C05 / C12, dimension calls: a state with a linked range dimension; a refused call and an accepted one *)
Definition nv_ds : dstate :=
  mkDS (mkTarget (Some [109; 115]) None [3]%Z [1; 2; 5]%Z) (mkR None None None (Some [(-1)%Z])) (mkS None None) [].
Example nv_dim :
  snd (dstep nv_ds (RSetTicks [3; 1]%Z)) = Some EValue /\ snd (dstep nv_ds (RSetTicks [1; 3]%Z)) = None /\
  snd (dstep nv_ds (AppendSampled NmNone StNone StNone NmNone)) = Some EValue /\
  snd (dstep nv_ds (AppendSampled (NmOk 2%Z) StNone (StOk [115]) NmNone)) = None.
Proof. vm_compute. repeat split. Qed.
