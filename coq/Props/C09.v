(* Props/C09.v -- SI unit recognition and scaling are exact and consistent.
   ONLY property theorems, each closed by `exact` and followed by Print Assumptions.
   The functions (is_atomic, is_si, split, scalable, scaling) are the model of
   nixio/util/units.py in Pure/Units.v, running the regular expressions and tables that
   harness/translate.py regenerates from the current source into Gen/Units.v.
   A scale factor is 10^e; the theorems speak about e. *)
From NixV Require Import Base.Prelude Pure.Regex Gen.Units Pure.Units Proofs.UnitsProofs Proofs.RegexProofs Proofs.SanitizerProofs.
Open Scope N_scope.

(* the translated tables are the 20 SI prefixes with their exponents *)
Theorem c09_table_is_SI :
  (forall p e, In (p, e) si_prefix_table -> lookup_exp p prefix_exps = Some e) /\
  (forall p, In p prefixes <-> exists e, In (p, e) si_prefix_table) /\
  length prefixes = 20%nat.
Proof. exact table_is_SI. Qed.
Print Assumptions c09_table_is_SI.

(* every prefix-unit-power combination of the tables (prefix optional, power in -3..3 or
   absent) is an atomic SI unit and is split into exactly that prefix, unit and power *)
Theorem c09_split_exact : forall p u k,
  In p opt_prefixes -> In u units -> In k powers ->
  is_atomic (p ++ u ++ k) = true /\ is_si (p ++ u ++ k) = true /\
  split (p ++ u ++ k) = (p, u, tl k).
Proof. exact split_exact. Qed.
Print Assumptions c09_split_exact.

(* same base unit and power: the factor is the ratio of the prefixes to the unit's power *)
Theorem c09_scaling : forall p1 p2 u k,
  In p1 opt_prefixes -> In p2 opt_prefixes -> In u units -> In k powers ->
  scalable (p1 ++ u ++ k) (p2 ++ u ++ k) = true /\
  scaling (p1 ++ u ++ k) (p2 ++ u ++ k) = SOk ((pexp p1 - pexp p2) * pow_val k).
Proof. intros; split; [apply scalable_same | apply scaling_spec]; assumption. Qed.
Print Assumptions c09_scaling.

(* conversions compose: a->b then b->c equals a->c (factors multiply = exponents add) *)
Theorem c09_compose : forall p1 p2 p3 u k x y,
  In p1 opt_prefixes -> In p2 opt_prefixes -> In p3 opt_prefixes -> In u units -> In k powers ->
  scaling (p1 ++ u ++ k) (p2 ++ u ++ k) = SOk x ->
  scaling (p2 ++ u ++ k) (p3 ++ u ++ k) = SOk y ->
  scaling (p1 ++ u ++ k) (p3 ++ u ++ k) = SOk (x + y).
Proof. exact scaling_compose. Qed.
Print Assumptions c09_compose.

(* ... and invert *)
Theorem c09_invert : forall p1 p2 u k x,
  In p1 opt_prefixes -> In p2 opt_prefixes -> In u units -> In k powers ->
  scaling (p1 ++ u ++ k) (p2 ++ u ++ k) = SOk x ->
  scaling (p2 ++ u ++ k) (p1 ++ u ++ k) = SOk (- x).
Proof. exact scaling_invert. Qed.
Print Assumptions c09_invert.

(* a different base unit or (written) power: not scalable, conversion refused *)
Theorem c09_not_scalable : forall p1 u1 k1 p2 u2 k2,
  In p1 opt_prefixes -> In p2 opt_prefixes -> In u1 units -> In u2 units ->
  In k1 powers -> In k2 powers -> (u1 <> u2 \/ k1 <> k2) ->
  scalable (p1 ++ u1 ++ k1) (p2 ++ u2 ++ k2) = false /\
  scaling (p1 ++ u1 ++ k1) (p2 ++ u2 ++ k2) = SRefused.
Proof. exact scaling_refused. Qed.
Print Assumptions c09_not_scalable.

(* products and quotients of ANY number (>= 2) of table-built atomic units, in any mix of
   '*' and '/', are recognised as compound (and hence as SI) *)
Theorem c09_compound : forall (first : str * str * str) (rest : list (N * (str * str * str))),
  table_atom first -> rest <> [] ->
  (forall x, In x rest -> (fst x = 42 \/ fst x = 47) /\ table_atom (snd x)) ->
  is_compound (compound_string first rest) = true /\ is_si (compound_string first rest) = true.
Proof. exact compound_recognised. Qed.
Print Assumptions c09_compound.

(* unit clean-up is idempotent on every string whose cleaned form does not again contain
   the two letters "mu" (see known finding C09-sanitizer: "mmu" -> "mu" -> "u") *)
Theorem c09_sanitizer_idem_partial : forall s,
  contains [109;117] (sanitizer s) = false -> sanitizer (sanitizer s) = sanitizer s.
Proof. exact sanitizer_idem_partial. Qed.
Print Assumptions c09_sanitizer_idem_partial.

(* the full statement is false of the faithful model: witness "mmu" *)
Theorem c09_sanitizer_idem_refuted : exists s, sanitizer (sanitizer s) <> sanitizer s.
Proof. exact sanitizer_idem_refuted. Qed.
Print Assumptions c09_sanitizer_idem_refuted.
