"""subprocess probe: constants of nixio/file.py by value + the id-requirement literal by ast"""
import ast
import inspect
import json
import sys

import nixio.file as nf

out = {
    "HDF_FF_VERSION": [int(x) for x in nf.HDF_FF_VERSION],
    "FILE_FORMAT": nf.FILE_FORMAT,
    "modes": {"ReadOnly": nf.FileMode.ReadOnly, "ReadWrite": nf.FileMode.ReadWrite,
              "Overwrite": nf.FileMode.Overwrite},
}
src = inspect.getsource(nf.File._check_header)
import textwrap
tree = ast.parse(textwrap.dedent(src))
lits = []
for node in ast.walk(tree):
    if isinstance(node, ast.Compare) and len(node.ops) == 1 and isinstance(node.comparators[0], ast.Tuple):
        tup = node.comparators[0]
        if all(isinstance(e, ast.Constant) and isinstance(e.value, int) for e in tup.elts):
            left = ast.unparse(node.left)
            lits.append({"left": left, "op": type(node.ops[0]).__name__, "tuple": [e.value for e in tup.elts]})
out["check_header_tuple_compares"] = lits


def body_calls(fn):
    """the calls a method body makes, in order, as dotted names (statements that are plain calls only;
    anything else is reported as 'stmt:<kind>' so that the translator can refuse it)"""
    tree = ast.parse(textwrap.dedent(inspect.getsource(fn)))
    calls = []
    for st in tree.body[0].body:
        if isinstance(st, ast.Expr) and isinstance(st.value, ast.Constant):
            continue                                  # docstring
        if isinstance(st, ast.Expr) and isinstance(st.value, ast.Call):
            calls.append(ast.unparse(st.value.func))
        else:
            calls.append("stmt:" + type(st).__name__)
    return calls


out["flush_body"] = body_calls(nf.File.flush)
out["close_body"] = body_calls(nf.File.close)
json.dump(out, sys.stdout)
