(* Proofs/FeatureProofs.v -- Feature.data = x at the level of the API program: an accepted assignment makes the data
   link resolve to x ITSELF and records x's kind (what the feature then presents), for arrays and data frames alike *)
From NixV Require Import Base.Prelude H5.Store Gen.Touch Nix.Api Proofs.StoreLemmas.
From Coq Require Import List Lia. Import ListNotations.
Open Scope N_scope.

Lemma child_set_attr s a k v b kk : child (set_attr s a k v) b kk = child s b kk.
Proof. unfold child. rewrite links_set_attr. reflexivity. Qed.

(* Feature.data = x, accepted: the feature's data link is x itself and the feature records (and presents) x's kind *)
Theorem feature_data_set ph x' now s s' p x :
  nth_error (hs s) (N.to_nat ph) = Some p -> nth_error (hs s) (N.to_nat x') = Some x ->
  (ha p < length (nodes (sto s)))%nat ->
  api_set_link ph RFeatureData (Some x') now s = (s', inl tt) ->
  child (sto s') (ha p) (TS s_data) = Some (ha x) /\
  get_attr (sto s') (ha p) s_target_type =
    Some (AText (TS (if ekind_eqb (hk x) KDataFrame then s_DataFrame else s_DataArray))).
Proof.
  intros Hp Hx Hlen E.
  unfold api_set_link in E. unfold bind at 1 in E. unfold the_handle at 1 in E. rewrite Hp in E.
  unfold bind at 1 in E. unfold the_handle at 1 in E. rewrite Hx in E.
  repeat (unfold bind at 1 in E; unfold guard at 1 in E;
          match type of E with context [if ?b then ret tt else fail _] => destruct b eqn:?; cbn [ret fail] in E; try discriminate end).
  unfold bind at 1 in E. unfold rd at 1 in E.
  unfold bind at 1 in E. unfold guard at 1 in E.
  destruct (store_has_entity _ _ _ _); cbn [ret fail] in E; [|discriminate].
  unfold bind at 1 in E. unfold rd at 1 in E.
  unfold bind at 1 in E. unfold guard at 1 in E.
  destruct (negb _); cbn [ret fail] in E; [|discriminate].
  unfold bind at 1 in E. unfold wr at 1 in E. destruct (ro s) eqn:Ro; [discriminate|].
  unfold bind at 1 in E. unfold wr at 1 in E. cbn [ro sto hs auto nid] in E.
  set (K := AText (TS (if ekind_eqb (hk x) KDataFrame then s_DataFrame else s_DataArray))) in *.
  set (s1 := add_link (set_attr (sto s) (ha p) s_target_type (Some K)) (ha p) (TS s_data) (ha x)) in *.
  assert (L1 : (ha p < length (nodes (set_attr (sto s) (ha p) s_target_type (Some K))))%nat)
    by (rewrite length_set_attr; exact Hlen).
  assert (C1 : child s1 (ha p) (TS s_data) = Some (ha x)) by (apply child_add_link_same; exact L1).
  assert (A1 : get_attr s1 (ha p) s_target_type = Some K).
  { unfold s1, add_link. rewrite get_attr_set_links. apply get_attr_set_same. exact Hlen. }
  unfold auto_touch_for in E. destruct (touches c_Feature s_data).
  - unfold auto_touch in E. unfold bind at 1 in E. unfold get_st at 1 in E. cbn [auto] in E.
    destruct (auto s).
    + unfold touch_updated, wr in E. cbn [ro sto] in E. injection E as <-. cbn [sto].
      split.
      * rewrite child_set_attr. exact C1.
      * rewrite get_attr_set_other; [exact A1 | right; discriminate].
    + unfold ret in E. injection E as <-. cbn [sto]. split; assumption.
  - unfold ret in E. injection E as <-. cbn [sto]. split; assumption.
Qed.
