(* Pure/Dims.v -- model of the position <-> index arithmetic of nixio/dimensions.py
   (SampledDimension, RangeDimension, SetDimension), over exact rationals.
   None models IndexError.  Branch structure and order of tests as in the Python. *)
From Coq Require Import QArith Qround Qabs ZArith List Bool.
Import ListNotations.
Open Scope Q_scope.

Inductive imode := Less | Leq | Geq.            (* IndexMode.Less / LessOrEqual / GreaterOrEqual *)
Inductive smode := Exclusive | Inclusive.       (* SliceMode *)

Definition Qleb (a b : Q) : bool := Qle_bool a b.
Definition Qltb (a b : Q) : bool := negb (Qle_bool b a).
Definition Qeqb (a b : Q) : bool := Qeq_bool a b.

(* np.round: round half to even *)
Definition qround (x : Q) : Z :=
  let f := Qfloor x in
  let d := x - inject_Z f in
  if Qltb d (1#2) then f
  else if Qltb (1#2) d then (f + 1)%Z
  else if Z.even f then f else (f + 1)%Z.

(* np.isclose(a, b) with the default rtol=1e-5, atol=1e-8:  |a-b| <= atol + rtol*|b| *)
Definition atol : Q := 1 # 100000000.
Definition rtol : Q := 1 # 100000.
Definition isclose (a b : Q) : bool := Qleb (Qabs (a - b)) (atol + rtol * Qabs b).

Definition is_less (m : imode) : bool := match m with Less => true | _ => false end.
Definition end_mode (m : smode) : imode := match m with Exclusive => Less | Inclusive => Leq end.

(* ------------------------------------------------------------------ SampledDimension *)
Definition position_at (off itv : Q) (i : Z) : Q := inject_Z i * itv + off.

Definition sampled_index_of (off itv p : Q) (m : imode) : option Z :=
  let x := (p - off) / itv in
  if Qltb x 0 then
    match m with Geq => Some 0%Z | _ => None end
  else if isclose x 0 && is_less m then None
  else
    let idx := qround x in
    if isclose x (inject_Z idx) then
      match m with Less => Some (idx - 1)%Z | _ => Some idx end
    else if Qltb (inject_Z idx) x then
      match m with Geq => Some (idx + 1)%Z | _ => Some idx end
    else
      match m with Geq => Some idx | _ => Some (idx - 1)%Z end.

Definition range_of (io : Q -> imode -> option Z) (p q : Q) (m : smode) : option (Z * Z) :=
  match io p Geq, io q (end_mode m) with
  | Some a, Some b => if (b <? a)%Z then None else Some (a, b)
  | _, _ => None
  end.

Definition sampled_range_indices (off itv p q : Q) (m : smode) : option (Z * Z) :=
  range_of (sampled_index_of off itv) p q m.

(* axis(count, start=k): tuple(np.arange(count) * sample + (start*sample + offset)) *)
Definition sampled_axis (off itv : Q) (count : nat) (start : Z) : list Q :=
  map (fun k => inject_Z (Z.of_nat k) * itv + (inject_Z start * itv + off)) (seq 0 count).

(* axis(count, start_position=p): refused when p lies before the offset, else
   tuple(np.arange(count) * sample + p); axis(count) is axis(count, start=0) *)
Definition sampled_axis_at (off itv : Q) (count : nat) (p : Q) : option (list Q) :=
  if Qltb p off then None
  else Some (map (fun k => inject_Z (Z.of_nat k) * itv + p) (seq 0 count)).

(* ------------------------------------------------------------------- RangeDimension *)
Fixpoint last_index_from (i : Z) (f : Q -> bool) (l : list Q) (acc : option Z) : option Z :=
  match l with
  | [] => acc
  | t :: r => last_index_from (i + 1) f r (if f t then Some i else acc)
  end.
Definition last_index (f : Q -> bool) (l : list Q) : option Z := last_index_from 0 f l None.
Fixpoint first_index_from (i : Z) (f : Q -> bool) (l : list Q) : option Z :=
  match l with
  | [] => None
  | t :: r => if f t then Some i else first_index_from (i + 1) f r
  end.
Definition first_index (f : Q -> bool) (l : list Q) : option Z := first_index_from 0 f l.

Definition range_index_of (ticks : list Q) (p : Q) (m : imode) : option Z :=
  match ticks with
  | [] => None                                          (* ticks[0] raises IndexError *)
  | t0 :: _ =>
      if Qltb p t0 then
        match m with Geq => Some 0%Z | _ => None end
      else if Qltb (last ticks t0) p then
        match m with Geq => None | _ => Some (Z.of_nat (length ticks) - 1)%Z end
      else
        match m with
        | Leq => last_index (fun t => Qleb t p) ticks
        | Less => last_index (fun t => Qltb t p) ticks
        | Geq => first_index (fun t => Qleb p t) ticks
        end
  end.

Inductive rres := RSome (a b : Z) | RNone | RRaise.   (* (a,b) / None / IndexError(start > end) *)
Definition rres_of (o : option (Z * Z)) : rres :=
  match o with Some (a, b) => RSome a b | None => RNone end.

Definition range_range_indices (ticks : list Q) (p q : Q) (m : smode) : rres :=
  if Qltb q p then RRaise else rres_of (range_of (range_index_of ticks) p q m).

Definition tick_at (ticks : list Q) (i : nat) : option Q := nth_error ticks i.

(* ---------------------------------------------------------------------- SetDimension *)
Definition set_index_of (nlabels : nat) (p : Q) (m : imode) : option Z :=
  if Qltb p 0 then
    match m with Geq => Some 0%Z | _ => None end
  else if Qeqb p 0 && is_less m then None
  else if negb (Nat.eqb nlabels 0) && Qltb (inject_Z (Z.of_nat nlabels) - 1) p then
    match m with Geq => None | _ => Some (Z.of_nat nlabels - 1)%Z end
  else
    let idx := Qfloor p in
    if isclose p (inject_Z idx) then
      match m with Less => Some (idx - 1)%Z | _ => Some idx end
    else
      match m with Geq => Some (idx + 1)%Z | _ => Some idx end.

Definition set_range_indices (nlabels : nat) (p q : Q) (m : smode) : rres :=
  if Qltb q p then RRaise else rres_of (range_of (set_index_of nlabels) p q m).
