"""C17 -- flush() and close() make everything written so far survive a process kill."""
import json
import os
import random
import subprocess
import sys
from concurrent.futures import ThreadPoolExecutor

sys.path.insert(0, os.path.dirname(os.path.dirname(os.path.abspath(__file__))))
import core  # noqa: E402

ID = "C17"
THEOREMS = ["c17_flush_then_kill", "c17_close_then_kill", "c17_close_then_anything", "c17_flush_idempotent", "c17_never_stale"]
PROFILE = {"weights": {"create": 10, "mtag": 2, "feature": 2, "append": 6, "set_link": 4, "set_attr": 6, "delete": 2, "remove": 2,
                       "lookup": 1, "reopen": 0.3, "bad": 0.3}}


def one(ctx, k, seed, length, final, variant=None):
    path = os.path.join(ctx.workdir, "d%d.nix" % k)
    side = os.path.join(ctx.workdir, "d%d.json" % k)
    env = ctx.impl_env()
    script = os.path.join(core.HERE, "impl_durable.py")
    req = {"mode": "child", "seed": seed, "len": length, "profile": PROFILE, "path": path, "side": side, "final": final, "variant": variant}
    p = subprocess.run([core.PY, script], input=json.dumps(req), env=env, capture_output=True, text=True, cwd=ctx.workdir, timeout=600)
    res = {"k": k, "seed": seed, "len": length, "final": final, "variant": variant, "child_rc": p.returncode}
    if p.returncode != -9:
        res["problem"] = "the writer did not reach its kill point (rc %s): %s" % (p.returncode, p.stderr[-300:])
        return res
    want = json.load(open(side))
    res["ops"] = want["ops"]
    res["trace"] = want["trace"]
    for rw in (False, True):
        q = subprocess.run([core.PY, script], input=json.dumps({"mode": "read", "path": path, "rw": rw}), env=env,
                           capture_output=True, text=True, cwd=ctx.workdir, timeout=600)
        try:
            got = json.loads(q.stdout)
        except ValueError:
            got = {"error": "reader failed: " + q.stderr[-200:]}
        mode = "read-write" if rw else "read-only"
        if "error" in got:
            res["problem"] = "after the kill the file cannot be opened %s: %s" % (mode, got["error"])
            break
        if got["walk"] != want["walk"]:
            j = [i for i, (a, b) in enumerate(zip(got["walk"], want["walk"])) if a != b]
            res["problem"] = "after the kill the file (opened %s) does not show the state at the %s: walk differs at token %s (%d vs %d tokens)" % (
                mode, final, j[:1], len(got["walk"]), len(want["walk"]))
            break
        if got["arrays"] != want["arrays"]:
            bad = [n for n in want["arrays"] if got["arrays"].get(n) != want["arrays"][n]]
            res["problem"] = "after the kill array data differs from the state at the %s (opened %s): %s" % (final, mode, bad[:3])
            break
    for pth in (path, side):
        try:
            os.remove(pth)
        except OSError:
            pass
    return res


def run(ctx):
    rnd = random.Random(ctx.seed)
    thorough = ctx.tier == "thorough"
    st = core.proof_stage(ctx, [], ["Props/C17.vo", "Nix/Check.vo"], "Props/C17.v", THEOREMS)
    ctx.trusted_base = [
        "Coq 8.16.1 kernel; no native_compute",
        "File.flush / File.close as call sequences translated from nixio/file.py by ast on every run (fail closed on any statement "
        "that is not self._h5file.flush(), self._h5file.close() or gc.collect())",
        "ASSUMED, not proven: H5Fflush(global) and H5Fclose leave the file showing the live content; between flushes the on-disk "
        "content is unspecified. This is what the kill experiment exercises on the real library (h5py/libhdf5, this file system).",
    ]
    ctx.assumptions = ["every property theorem: Closed under the global context"]
    n = 400 if thorough else 48
    jobs = [(k, ctx.seed * 7919 + k, rnd.randint(0, 40 if thorough else 25), rnd.choice(["flush", "flush", "close"])) for k in range(n)]
    # flush points at which the file holds no entity: right after creation (no operation at all), and after a history
    # whose blocks and sections were all deleted again
    jobs += [(n + j, ctx.seed * 7919 + n + j, 0, "flush", "empty") for j in range(2)]
    jobs += [(n + 2 + j, ctx.seed * 7919 + n + 2 + j, rnd.randint(3, 20), "flush", "emptied") for j in range(12 if thorough else 4)]
    os.makedirs(ctx.workdir, exist_ok=True)
    with ThreadPoolExecutor(max_workers=8) as ex:
        results = list(ex.map(lambda j: one(ctx, *j), jobs))
    failures = [r for r in results if "problem" in r]
    # the histories the children ran are also compared with the store model (the state that must survive)
    import nixcases
    hists = [{"ops": r["ops"], "trace": r["trace"]} for r in results if "ops" in r and r["ops"]]
    if core.vo_ok("Nix/Check.v") and hists:
        bad, errs = nixcases.check_histories(ctx, hists, False, tag="c17")
        for e in errs:
            st["broken"].append("model evaluation failed: %s" % e)
        if bad:
            st["broken"].append("correspondence: model and implementation disagree on %d of the writers' histories" % len(bad))
    if failures:
        failures.sort(key=lambda r: r["len"])
        r = failures[0]
        rp = ctx.write_replay("%s-seed%d.json" % (ID, ctx.seed), {
            "property": ID, "kind": r["problem"], "input": {"seed": r["seed"], "len": r["len"], "final": r["final"], "history": r.get("ops")},
            "count": len(failures), "how_to_replay": "harness/impl_durable.py child mode with this seed/len/final, then reader mode",
            "broken_obligations": st["broken"]})
        ctx.violation("%d of %d killed writers: %s" % (len(failures), n, r["problem"]), rp)
    ctx.coverage.update({
        "evaluations": len(results), "distinct_nontrivial": len(set((r["seed"], r["len"], r["final"], r.get("variant")) for r in results)),
        "rule": "writer processes running a generated history of 0-40 operations (all entity kinds, links, deletions, earlier "
                "flushes and reopenings), then creating compressed and uncompressed arrays grown by up to 4 appends and partly "
                "rewritten; the state (canonical walk + shape/dtype/sha256 of every array) is saved aside, flush() (2/3) or "
                "close() (1/3) is called and the process kills itself with SIGKILL; the file is then opened read-only and "
                "read-write by fresh processes and compared. Extra flush points with NO entity in the file: right after creation, and "
                "after all blocks and sections of a history were deleted again.",
        "kill_points": {"flush": sum(1 for r in results if r["final"] == "flush"), "close": sum(1 for r in results if r["final"] == "close")},
        "killed_by_sigkill": sum(1 for r in results if r["child_rc"] == -9), "spec_failures": len(failures),
        "samples": [{"seed": results[0]["seed"], "len": results[0]["len"], "final": results[0]["final"]}],
    })
    return st
