(* Pure/TaggingCheck.v -- correspondence for C08: the cells the model selects against the cells the
   implementation returned (arrays hold their own row-major offsets). *)
From Coq Require Import ZArith List Bool QArith.
From NixV Require Import Base.Prelude Pure.Regex Pure.Units Pure.Dims Pure.Slices Pure.Tagging.
Import ListNotations.

Inductive tobs := OData (shape : list Z) (cells : list Z) | OInvalid | OErr (code : N).
Definition err_code (e : terr) : N := match e with EIncompatible => 1 | EIndexError => 2 | EOutOfBounds => 3 end.
Definition obs_of (shape : list Z) (r : tres) : tobs :=
  match r with
  | TData s => OData (map (fun p => (snd p - fst p)%Z) s)
                     (snd (gather shape (map (fun p => ARange (fst p) (snd p) 1) s)))
  | TInvalid => OInvalid
  | TErr e => OErr (err_code e)
  end.
Definition tobs_eqb (a b : tobs) : bool :=
  match a, b with
  | OData s c, OData s' c' => list_eqb Z.eqb s s' && list_eqb Z.eqb c c'
  | OInvalid, OInvalid => true
  | OErr x, OErr y => N.eqb x y
  | _, _ => false
  end.

(* what: 0 = tagged_data, 1/2/3 = feature_data tagged/indexed/untagged *)
Record tcase := mkCase { c_mtag : bool; c_what : nat; c_posidx : Z; c_dims : list ddesc; c_shape : list Z;
                         c_pos : list Q; c_ext : list Q; c_units : option (list str); c_rule : smode; c_obs : tobs }.
Definition run_case (c : tcase) : tres :=
  match c_what c with
  | O => if c_mtag c then mtag_tagged_data (c_dims c) (c_shape c) (c_pos c) (c_ext c) (c_units c) (c_rule c)
         else tag_tagged_data (c_dims c) (c_shape c) (c_pos c) (c_ext c) (c_units c) (c_rule c)
  | S k => feature_data (c_mtag c) (match k with O => LTagged | S O => LIndexed | _ => LUntagged end) (c_posidx c)
                        (c_dims c) (c_shape c) (c_pos c) (c_ext c) (c_units c) (c_rule c)
  end.
Definition check_tagging (c : tcase) : N :=
  let ok := tobs_eqb (obs_of (c_shape c) (run_case c)) (c_obs c) in vcode ok ok.
