"""C05 -- links are aliases of the original entity, never copies, and stay in their block."""
import os
import sys

sys.path.insert(0, os.path.dirname(os.path.dirname(os.path.abspath(__file__))))
import storeprop  # noqa: E402

ID = "C05"
THEOREMS = ["c05_link_is_alias", "c05_link_keeps_attrs", "c05_write_seen_through_all_paths",
            "c05_refused_append_unchanged", "c05_linked_dimension_is_alias", "c05_linked_set_dimension",
            "c05_dimension_write_through", "c05_ticks_and_link_replace_each_other", "c05_feature_data_is_alias"]
PRELUDES = [
    # equal names in two blocks: positions, extents and feature data must refuse the namesake from the other block
    [["create", 0, "CBlocks", "a", "t", []], ["create", 0, "CBlocks", "b", "t", []], ["create", 1, "CDataArrays", "a", "t", [1, 2]],
     ["create", 1, "CDataArrays", "b", "t", [3, 4]], ["create", 2, "CDataArrays", "a", "t", [5, 6]], ["create", 2, "CDataArrays", "b", "t", [7, 8]],
     ["create_mtag", 1, "c", "t", 3], ["set_link", 7, "RPositions", 5], ["set_link", 7, "RExtents", 6], ["set_link", 7, "RExtents", 4],
     ["set_link", 7, "RPositions", 4], ["create_feature", 7, 5, "untagged"], ["create_feature", 7, 3, "untagged"],
     ["set_link", 8, "RFeatureData", 6], ["set_attr", 4, "ALabel", "x"], ["reopen", False]],
    # sources (top-level and nested) taken FROM one entity's source list and appended to the lists of others
    [["create", 0, "CBlocks", "a", "t", []], ["create", 1, "CSources", "a", "t", []], ["create", 2, "CSources", "b", "t", []],
     ["create", 1, "CDataArrays", "a", "t", [1]], ["create", 1, "CDataArrays", "b", "t", [2]], ["create", 1, "CTags", "c", "t", [1]],
     ["append", 4, "LSources", 2], ["append", 4, "LSources", 3], ["lookup_link", 4, "LSources", ["pos", 0]],
     ["lookup_link", 4, "LSources", ["pos", 1]], ["append", 5, "LSources", 7], ["append", 6, "LSources", 8], ["append", 5, "LSources", 8],
     ["create", 1, "CGroups", "d", "t", []], ["append", 9, "LSources", 7], ["lookup_link", 6, "LSources", ["pos", 0]],
     ["append", 9, "LSources", 10]],
    # a feature whose data is a data frame, re-pointed to an array and back; a data frame refused for a tagged feature
    [["create", 0, "CBlocks", "a", "t", []], ["create", 1, "CDataArrays", "a", "t", [1, 2]], ["create", 1, "CDataFrames", "b", "t", [3, 4]],
     ["create", 1, "CTags", "c", "t", [1]], ["create_feature", 4, 3, "untagged"], ["set_link", 5, "RFeatureData", 2],
     ["set_link", 5, "RFeatureData", 3], ["create_feature", 4, 3, "tagged"], ["create_feature", 4, 2, "tagged"],
     ["set_link", 6, "RFeatureData", 3], ["set_link", 5, "RFeatureData", 2], ["reopen", False]],
    [["create", 0, "CBlocks", "a", "t", []], ["create", 1, "CDataArrays", "a", "t", [1, 2]], ["create", 1, "CDataFrames", "b", "t", [3, 4]],
     ["create", 1, "CDataArrays", "c", "t", [5]], ["create_mtag", 1, "d", "t", 4], ["create_feature", 5, 3, "indexed"],
     ["set_link", 6, "RFeatureData", 2], ["set_attr", 2, "ALabel", "x"], ["reopen", False]],
]
PROFILE = {"small_names": True, "path_sweep": True, "preludes": PRELUDES, "prelude_prob": 0.3,
           "weights": {"create": 7, "mtag": 2, "feature": 4, "append": 16, "lookup_link": 6, "set_attr": 8, "set_link": 4,
                       "remove": 2, "delete": 1, "probe_link": 2, "reopen": 0.6, "bad": 0.3, "lookup": 2}}
RULE = ("alias histories: a target linked from many lists (groups' member lists, references, source lists, feature data, "
        "metadata), lists in several blocks, EQUAL NAMES IN DIFFERENT BLOCKS (two-name pool), attributes changed through handles "
        "obtained via link lists and read back through the owning container (the canonical walk), appends of wrong-kind and "
        "foreign-block entities; the walk is compared with the model (where a link IS the target's address) after every operation "
        "and every member list / reference list / feature is checked to stay inside its block. At every reopen and at the end of "
        "a history every object reached through a link (member lists, references, positions/extents, feature data, source "
        "lists, metadata, section links) must answer every public property / reader method like the object reached through "
        "its owning container. A third of the histories start with a scripted prelude in which a feature's data is a data "
        "frame, is re-pointed to an array and back (the walk records the kind of object the feature presents).")


def predicate(h):
    out = []
    for i, (op, res) in enumerate(zip(h["ops"], h["results"])):
        info = h["infos"][i]
        if info.get("alias") and res[0] == "ok":
            out.append(("an accepted link does not lead to the entity that was linked", i, {"op": op, "what": info["alias"]}))
        if info["cross_block"]:
            out.append(("a link list / feature holds an entity of another block", i, {"op": op, "foreign_ids": len(info["cross_block"])}))
    # at every reopen and at the end: every object reached through a link answers every read accessor (reflection over the
    # classes) like the object reached through its owning container
    for d in h.get("path_diffs") or []:
        if d["ndiffs"]:
            out.append(("an entity reached through a link answers differently from the entity reached through its container",
                        min(d["step"] - 1, len(h["ops"]) - 1),
                        {"accessor": d["diffs"][0][0], "through_container": d["diffs"][0][1], "through_link": d["diffs"][0][2], "count": d["ndiffs"]}))
    return out


def run(ctx):
    st = storeprop.run(ctx, ID, THEOREMS, "Props/C05.v", PROFILE, (30, 45), 100, 900, predicate, RULE,
                       extra_targets=["Pure/DimLinkCheck.vo", "Pure/TableCheck.vo"])
    # the dimension clauses: range / set dimensions linked to a vector of an array
    import dimlink
    thorough = ctx.tier == "thorough"
    cov = dimlink.stage(ctx, st, 1200 if thorough else 150, 18 if thorough else 14, [dimlink.alias_predicate])
    ctx.coverage.update(cov)
    ctx.coverage["evaluations"] += sum(cov["dimension_ops"].values())
    dimlink.frame_links_stage(ctx, 300 if thorough else 40, 14)
    from props import c16
    ctx.coverage.update(c16.frame_stage(ctx, st, 600 if thorough else 90, "a change made through one path is visible through all others"))
    ctx.coverage["rule"] += (" Dimension links: histories on a host array's range and set dimension and a target array of rank 1-2 "
                             "(ticks incl. descending, links with every class of index specification incl. out-of-range vectors, "
                             "unlink, unit/label through the dimension and through the target, cell writes, reopen); stored fields "
                             "and reported ticks/unit/label/labels compared with the model after every call.")
    return st


def replay(ctx):
    return storeprop.replay(ctx, ID, predicate)
