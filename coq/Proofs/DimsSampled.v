(* Proofs/DimsSampled.v -- C07 for the regularly sampled dimension. *)
From Coq Require Import QArith Qround Qabs ZArith List Bool Lia Lqa.
From NixV Require Import Base.Prelude Pure.Dims Pure.DimsCheck Proofs.DimsBase.
Import ListNotations.
Open Scope Q_scope.

Definition nat_dom (i : Z) : Prop := (0 <= i)%Z.

Section Sampled.
  Variables off itv : Q.
  Hypothesis itv_pos : 0 < itv.
  Let c := position_at off itv.

  Lemma itv_ne : ~ itv == 0.
  Proof. intro E. rewrite E in itv_pos. apply (Qlt_irrefl 0). exact itv_pos. Qed.

  Lemma scaled_eq p : p == (p - off) / itv * itv + off.
  Proof. field. exact itv_ne. Qed.

  (* the scaled position orders against an index as the position orders against the sample *)
  Lemma c_le p i : c i <= p <-> inject_Z i <= (p - off) / itv.
  Proof.
    unfold c, position_at. set (x := (p - off) / itv).
    assert (E : p == x * itv + off) by apply scaled_eq.
    split; intro H.
    - apply Qmult_le_r with (z := itv); [exact itv_pos|]. lra.
    - apply Qmult_le_r with (z := itv) in H; [|exact itv_pos]. lra.
  Qed.
  Lemma c_lt p i : c i < p <-> inject_Z i < (p - off) / itv.
  Proof.
    unfold c, position_at. set (x := (p - off) / itv).
    assert (E : p == x * itv + off) by apply scaled_eq.
    split; intro H.
    - apply Qmult_lt_r with (z := itv); [exact itv_pos|]. lra.
    - apply Qmult_lt_r with (z := itv) in H; [|exact itv_pos]. lra.
  Qed.
  Lemma c_ge p i : p <= c i <-> (p - off) / itv <= inject_Z i.
  Proof.
    unfold c, position_at. set (x := (p - off) / itv).
    assert (E : p == x * itv + off) by apply scaled_eq.
    split; intro H.
    - apply Qmult_le_r with (z := itv); [exact itv_pos|]. lra.
    - apply Qmult_le_r with (z := itv) in H; [|exact itv_pos]. lra.
  Qed.

  Lemma c_mono i j : nat_dom i -> nat_dom j -> (i <= j)%Z -> c i <= c j.
  Proof.
    intros _ _ H. unfold c, position_at. apply inj_le in H.
    assert (inject_Z i * itv <= inject_Z j * itv) by (apply Qmult_le_compat_r; lra). lra.
  Qed.

  (* sandwich lemmas: from inequalities on the scaled position to the order specification *)
  Lemma sand_leq p i : (0 <= i)%Z -> inject_Z i <= (p - off) / itv -> (p - off) / itv < inject_Z i + 1 ->
    last_le c nat_dom p i.
  Proof.
    intros Hi H1 H2. split; [exact Hi|]. split; [apply c_le; exact H1|].
    intros j _ Hj. apply c_le in Hj. apply inj_lt_succ. lra.
  Qed.
  Lemma sand_less p i : (0 <= i)%Z -> inject_Z i < (p - off) / itv -> (p - off) / itv <= inject_Z i + 1 ->
    last_lt c nat_dom p i.
  Proof.
    intros Hi H1 H2. split; [exact Hi|]. split; [apply c_lt; exact H1|].
    intros j _ Hj. apply c_lt in Hj. apply inj_lt_succ. lra.
  Qed.
  Lemma sand_geq p i : (0 <= i)%Z -> (p - off) / itv <= inject_Z i ->
    (i = 0%Z \/ inject_Z i - 1 < (p - off) / itv) -> first_ge c nat_dom p i.
  Proof.
    intros Hi H1 H2. split; [exact Hi|]. split; [apply c_ge; exact H1|].
    intros j Dj Hj. apply c_ge in Hj. destruct H2 as [->|H2]; [exact Dj|].
    assert (A : (i - 1 <= j - 1)%Z); [|lia].
    apply inj_lt_succ. rewrite !inj_sub1. lra.
  Qed.

  Theorem sampled_index_of_spec p m :
    band_sampled off itv p = false ->
    spec_index c nat_dom p m (sampled_index_of off itv p m).
  Proof.
    unfold band_sampled, band_at, sampled_index_of. set (x := (p - off) / itv).
    intros Hsep.
    destruct (Qltb x 0) eqn:Eneg.
    { apply Qltb_true in Eneg. destruct m; cbn.
      - intros j Dj Hj. apply c_lt in Hj. fold x in Hj. unfold nat_dom in Dj.
        apply inj_le in Dj. change (inject_Z 0) with 0 in Dj. lra.
      - intros j Dj Hj. apply c_le in Hj. fold x in Hj. unfold nat_dom in Dj.
        apply inj_le in Dj. change (inject_Z 0) with 0 in Dj. lra.
      - apply sand_geq; [lia | fold x; change (inject_Z 0) with 0; lra | left; reflexivity]. }
    apply Qltb_false in Eneg.
    destruct (qround_bounds x) as [B1 B2]. set (r := qround x) in *.
    (* separation: x is the integer r, or not close to it *)
    assert (Sep : x == inject_Z r \/ isclose x (inject_Z r) = false).
    { destruct (Qeqb x (inject_Z r)) eqn:E; [left; apply Qeqb_true; exact E|].
      right. cbn in Hsep. destruct (isclose x (inject_Z r)); [discriminate | reflexivity]. }
    assert (Rnn : (0 <= r)%Z).
    { apply inj_lt_succ. change (inject_Z 0) with 0. lra. }
    destruct (isclose x 0 && is_less m) eqn:Ez.
    { apply andb_prop in Ez. destruct Ez as [Ez Em]. destruct m; try discriminate. cbn.
      pose proof (qround_small x (isclose_zero_small x Ez)) as R0. fold r in R0.
      assert (X0 : x == 0).
      { destruct Sep as [E|E]; [rewrite E, R0; reflexivity|].
        rewrite R0 in E. change (inject_Z 0) with 0 in E. congruence. }
      intros j Dj Hj. apply c_lt in Hj. fold x in Hj. unfold nat_dom in Dj.
      apply inj_le in Dj. change (inject_Z 0) with 0 in Dj. lra. }
    destruct (isclose x (inject_Z r)) eqn:Ec.
    { (* exact position *)
      destruct Sep as [E|E]; [|discriminate].
      destruct m; cbn.
      - (* Less: r - 1, and r >= 1 because the zero test did not fire *)
        assert (R1 : (1 <= r)%Z).
        { destruct (Z.eq_dec r 0) as [R0|R0]; [|lia]. exfalso.
          rewrite R0 in E. change (inject_Z 0) with 0 in E.
          assert (C0 : isclose x 0 = true).
          { unfold isclose. apply Qleb_true. setoid_replace (x - 0) with 0 by lra.
            change (Qabs 0) with 0. unfold atol, rtol. lra. }
          rewrite C0 in Ez. discriminate. }
        apply sand_less; [lia | fold x; rewrite inj_sub1; lra | fold x; rewrite inj_sub1; lra].
      - apply sand_leq; [exact Rnn | fold x; lra | fold x; lra].
      - apply sand_geq; [exact Rnn | fold x; lra | right; fold x; lra]. }
    pose proof (isclose_false_ne _ _ Ec) as Ne.
    destruct (Qltb (inject_Z r) x) eqn:El.
    { apply Qltb_true in El. destruct m; cbn.
      - apply sand_less; [exact Rnn | fold x; lra | fold x; lra].
      - apply sand_leq; [exact Rnn | fold x; lra | fold x; lra].
      - apply sand_geq; [lia | fold x; rewrite inj_add1; lra | right; fold x; rewrite inj_add1; lra]. }
    apply Qltb_false in El.
    assert (Lt : x < inject_Z r).
    { apply Qle_lteq in El. destruct El as [L|L]; [exact L | contradiction]. }
    assert (R1 : (1 <= r)%Z).
    { assert (A : (0 <= r - 1)%Z); [|lia]. apply inj_lt_succ. rewrite inj_sub1.
      change (inject_Z 0) with 0. lra. }
    destruct m; cbn.
    - apply sand_less; [lia | fold x; rewrite inj_sub1; lra | fold x; rewrite inj_sub1; lra].
    - apply sand_leq; [lia | fold x; rewrite inj_sub1; lra | fold x; rewrite inj_sub1; lra].
    - apply sand_geq; [exact Rnn | fold x; lra | right; fold x; lra].
  Qed.

  Theorem sampled_range_spec p q m :
    band_sampled off itv p = false -> band_sampled off itv q = false ->
    spec_range c nat_dom p q m (sampled_range_indices off itv p q m).
  Proof.
    intros Hp Hq. unfold sampled_range_indices. apply range_from_index.
    - exact c_mono.
    - apply sampled_index_of_spec. exact Hp.
    - apply sampled_index_of_spec. exact Hq.
  Qed.

  (* a sample position is never inside the tolerance band: it IS the sample *)
  Lemma scaled_of_sample i : (c i - off) / itv == inject_Z i.
  Proof. unfold c, position_at. field. exact itv_ne. Qed.

  Lemma sample_not_band i : band_sampled off itv (c i) = false.
  Proof.
    unfold band_sampled, band_at. set (x := (c i - off) / itv).
    assert (E : x == inject_Z i) by apply scaled_of_sample.
    rewrite (qround_int x i E).
    assert (Q1 : Qeqb x (inject_Z i) = true) by (apply Qeqb_true; exact E).
    rewrite Q1. reflexivity.
  Qed.

  Lemma c_strict i j : c i <= c j -> (i <= j)%Z.
  Proof.
    intros H. apply c_le in H. rewrite scaled_of_sample in H. apply inj_le. exact H.
  Qed.
  Lemma c_strict_lt i j : c i < c j -> (i < j)%Z.
  Proof.
    intros H. apply c_lt in H. rewrite scaled_of_sample in H. apply inj_lt. exact H.
  Qed.

  (* converting the position of sample i back yields i *)
  Theorem sampled_roundtrip i : (0 <= i)%Z ->
    sampled_index_of off itv (c i) Leq = Some i /\
    sampled_index_of off itv (c i) Geq = Some i /\
    sampled_index_of off itv (c i) Less = (if (i =? 0)%Z then None else Some (i - 1)%Z).
  Proof.
    intros Hi.
    pose proof (sampled_index_of_spec (c i) Leq (sample_not_band i)) as S1.
    pose proof (sampled_index_of_spec (c i) Geq (sample_not_band i)) as S2.
    pose proof (sampled_index_of_spec (c i) Less (sample_not_band i)) as S3.
    split; [|split].
    - apply (spec_index_unique c nat_dom (c i) Leq _ _ S1). cbn.
      split; [exact Hi|]. split; [lra|]. intros j _ Hj. apply c_strict. exact Hj.
    - apply (spec_index_unique c nat_dom (c i) Geq _ _ S2). cbn.
      split; [exact Hi|]. split; [lra|]. intros j _ Hj. apply c_strict. exact Hj.
    - apply (spec_index_unique c nat_dom (c i) Less _ _ S3).
      destruct (i =? 0)%Z eqn:E0; cbn.
      + apply Z.eqb_eq in E0. subst i. intros j Dj Hj. apply c_strict_lt in Hj.
        unfold nat_dom in Dj. lia.
      + apply Z.eqb_neq in E0. split; [unfold nat_dom; lia|]. split.
        * apply c_lt. rewrite scaled_of_sample. apply (proj1 (inj_lt _ _)). lia.
        * intros j _ Hj. apply c_strict_lt in Hj. lia.
  Qed.

  (* the generated axis agrees with position_at *)
  Theorem sampled_axis_spec count start k : (k < count)%nat ->
    exists v, nth_error (sampled_axis off itv count start) k = Some v /\
              v == c (start + Z.of_nat k).
  Proof.
    intros Hk. unfold sampled_axis.
    eexists. split.
    - rewrite nth_error_map. rewrite (nth_error_nth' _ 0%nat) by (rewrite seq_length; exact Hk).
      rewrite seq_nth by exact Hk. cbn [option_map]. reflexivity.
    - unfold c, position_at. rewrite inject_Z_plus. cbn [plus]. ring.
  Qed.

  (* started by position: refused exactly before the offset; otherwise the axis begins AT the position and steps by
     the interval - started on sample i it is the axis started by index i *)
  Theorem sampled_axis_at_spec count p :
    (p < off -> sampled_axis_at off itv count p = None) /\
    (off <= p -> exists l, sampled_axis_at off itv count p = Some l /\ length l = count /\
       forall k, (k < count)%nat -> exists v, nth_error l k = Some v /\ v == p + inject_Z (Z.of_nat k) * itv).
  Proof.
    unfold sampled_axis_at. split.
    - intros H. apply Qltb_true in H. rewrite H. reflexivity.
    - intros H. apply Qltb_false in H. rewrite H. eexists. split; [reflexivity|]. split.
      + rewrite map_length, seq_length. reflexivity.
      + intros k Hk. eexists. split.
        * rewrite nth_error_map. rewrite (nth_error_nth' _ 0%nat) by (rewrite seq_length; exact Hk).
          rewrite seq_nth by exact Hk. cbn [option_map]. reflexivity.
        * cbn [plus]. ring.
  Qed.
  Theorem sampled_axis_at_sample count i k : (0 <= i)%Z -> (k < count)%nat ->
    exists l v w, sampled_axis_at off itv count (c i) = Some l /\ nth_error l k = Some v /\
                  nth_error (sampled_axis off itv count i) k = Some w /\ v == w /\ v == c (i + Z.of_nat k).
  Proof.
    intros Hi Hk.
    assert (Hge : off <= c i).
    { unfold c, position_at. rewrite <- (Qplus_0_l off) at 1. apply Qplus_le_l.
      apply Qmult_le_0_compat; [|apply Qlt_le_weak; exact itv_pos].
      change (inject_Z 0 <= inject_Z i). rewrite <- Zle_Qle. exact Hi. }
    destruct (proj2 (sampled_axis_at_spec count (c i)) Hge) as (l & El & _ & Hl).
    destruct (Hl k Hk) as (v & Ev & Hv).
    destruct (sampled_axis_spec count i k Hk) as (w & Ew & Hw).
    exists l, v, w. repeat split; try assumption.
    - rewrite Hv, Hw. unfold c, position_at. rewrite inject_Z_plus. ring.
    - rewrite Hv. unfold c, position_at. rewrite inject_Z_plus. ring.
  Qed.
End Sampled.

(* the tolerance band is a genuine deviation from the order-based statement *)
Theorem sampled_band_refuted :
  exists off itv p, 0 < itv /\
    ~ spec_index (position_at off itv) nat_dom p Geq (sampled_index_of off itv p Geq).
Proof.
  exists 0, 1, (1000004 # 1000). split; [reflexivity|].
  assert (E : sampled_index_of 0 1 (1000004 # 1000) Geq = Some 1000%Z) by (vm_compute; reflexivity).
  rewrite E. cbn. intros [_ [H _]]. unfold position_at in H. revert H.
  apply Qlt_not_le. reflexivity.
Qed.

Example sampled_nonvacuous :
  band_sampled (-(4#10)) (1#10) 0 = false /\ sampled_index_of (-(4#10)) (1#10) 0 Less = Some 3%Z.
Proof. vm_compute. split; reflexivity. Qed.
