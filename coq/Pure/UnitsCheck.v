(* Pure/UnitsCheck.v -- the correspondence / oracle functions evaluated on generated cases
   (C09).  [agree]: the model computes what the implementation returned.  [holds]: what the
   implementation returned satisfies the specification of the property. *)
From NixV Require Import Base.Prelude Pure.Regex Gen.Units Pure.Units.
Open Scope N_scope.

Definition triple_eqb (a b : str * str * str) : bool :=
  let '(a1, a2, a3) := a in let '(b1, b2, b3) := b in streq a1 b1 && streq a2 b2 && streq a3 b3.
Definition sres_eqb (a b : sres) : bool :=
  match a, b with
  | SOk x, SOk y => Z.eqb x y
  | SRefused, SRefused => true
  | SError, SError => true
  | _, _ => false
  end.

(* an atom of the table domain, by indices: prefix index 0 = none *)
Definition atom_of (ip iu ik : N) : str * str * str :=
  (nth_str opt_prefixes ip, nth_str units iu, nth_str powers ik).
Definition atom_text (t : str * str * str) : str := let '(p, u, k) := t in p ++ u ++ k.

(* stream 1: every prefix-unit-power string *)
Definition atomic_case := (N * N * N * (bool * bool * (str * str * str)))%type.
Definition check_atomic (c : atomic_case) : N :=
  let '(ip, iu, ik, (i_atomic, i_si, i_split)) := c in
  let t := atom_of ip iu ik in
  let '(p, u, k) := t in
  let s := atom_text t in
  vcode (Bool.eqb (is_atomic s) i_atomic && Bool.eqb (is_si s) i_si && triple_eqb (split s) i_split)
        (i_atomic && i_si && triple_eqb i_split (p, u, tl k)).

(* stream 2: pairs of table atoms *)
Definition pair_case := ((N * N * N) * (N * N * N) * (bool * sres))%type.
Definition check_pair (c : pair_case) : N :=
  let '((ip1, iu1, ik1), (ip2, iu2, ik2), (i_scalable, i_scaling)) := c in
  let a := atom_of ip1 iu1 ik1 in let b := atom_of ip2 iu2 ik2 in
  let sa := atom_text a in let sb := atom_text b in
  let same := N.eqb iu1 iu2 && N.eqb ik1 ik2 in
  let expected :=
    if same then SOk ((pexp (fst (fst a)) - pexp (fst (fst b))) * pow_val (snd a)) else SRefused in
  vcode (Bool.eqb (scalable sa sb) i_scalable && sres_eqb (scaling sa sb) i_scaling)
        (Bool.eqb i_scalable same && sres_eqb i_scaling expected).

(* stream 3: compounds of table atoms *)
Fixpoint compound_text (first : N * N * N) (rest : list (N * (N * N * N))) : str :=
  let '(ip, iu, ik) := first in
  match rest with
  | [] => atom_text (atom_of ip iu ik)
  | (sep, t) :: rest' => atom_text (atom_of ip iu ik) ++ sep :: compound_text t rest'
  end.
Definition compound_case := ((N * N * N) * list (N * (N * N * N)) * (bool * bool))%type.
Definition check_compound (c : compound_case) : N :=
  let '(first, rest, (i_compound, i_si)) := c in
  let s := compound_text first rest in
  vcode (Bool.eqb (is_compound s) i_compound && Bool.eqb (is_si s) i_si)
        (i_compound && i_si).

(* stream 4: arbitrary strings -- agreement on every function, and the idempotence of the
   implementation's sanitizer ([i_san2] = sanitizer applied to [i_san1]) outside the domain of
   the known finding (cleaned text that again contains "mu") *)
Definition string_case :=
  (str * (bool * bool * bool * (str * str * str) * str * str))%type.
Definition check_string (c : string_case) : N :=
  let '(s, (i_atomic, i_compound, i_si, i_split, i_san1, i_san2)) := c in
  vcode (Bool.eqb (is_atomic s) i_atomic && Bool.eqb (is_compound s) i_compound &&
         Bool.eqb (is_si s) i_si && triple_eqb (split s) i_split &&
         streq (sanitizer s) i_san1 && streq (sanitizer i_san1) i_san2)
        (streq i_san2 i_san1 || contains [109;117] i_san1).

(* stream 5: scalable/scaling on arbitrary string pairs: agreement only *)
Definition spair_case := (str * str * (bool * sres))%type.
Definition check_spair (c : spair_case) : N :=
  let '(a, b, (i_scalable, i_scaling)) := c in
  vcode (Bool.eqb (scalable a b) i_scalable && sres_eqb (scaling a b) i_scaling) true.
