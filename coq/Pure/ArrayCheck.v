(* Pure/ArrayCheck.v -- correspondence for C01 (array histories) and C15 (calibrated reads). *)
From Coq Require Import ZArith List Bool QArith.
From NixV Require Import Base.Prelude Pure.Slices Pure.SlicesCheck Pure.Array.
Import ListNotations.
Open Scope Z_scope.

Inductive aop :=
| AWriteAll (vals : list Z)
| AWriteRegion (e : list ix) (vals : list Z)
| AAppend (dshape data : list Z) (axis : nat)
| AResize (shape : list Z)
| AReopen.

(* None = the call was refused (state unchanged) *)
Definition astep (a : arr) (o : aop) : option arr :=
  match o with
  | AWriteAll vals => if Z.eqb (Z.of_nat (length vals)) (sizeZ (a_shape a)) then Some (write_all a vals) else None
  | AWriteRegion e vals =>
      match np_norm (a_shape a) e with
      | inl sels => if Nat.eqb (length vals) (length (offsets_of (a_shape a) sels))
                    then Some (write_region a sels vals) else None
      | inr _ => None
      end
  | AAppend ds d ax => append a ds d ax
  | AResize s => if Nat.eqb (length s) (length (a_shape a)) then Some (resize a s) else None
  | AReopen => Some a
  end.

(* what is observed after every op: refused? , shape, all cells, element type *)
Definition aobs := (bool * list Z * list Z * N)%type.
Definition aobs_eqb (x y : aobs) : bool :=
  let '(r1, s1, c1, d1) := x in let '(r2, s2, c2, d2) := y in
  Bool.eqb r1 r2 && zl_eqb s1 s2 && zl_eqb c1 c2 && N.eqb d1 d2.
Fixpoint arun (a : arr) (ops : list aop) : list aobs :=
  match ops with
  | [] => []
  | o :: r => match astep a o with
              | Some a' => (false, a_shape a', a_cells a', a_dtype a') :: arun a' r
              | None => (true, a_shape a, a_cells a, a_dtype a) :: arun a r
              end
  end.
Definition array_case := (arr * list aop * list aobs)%type.
Definition check_array (c : array_case) : N :=
  let '(a, ops, obs) := c in
  let ok := list_eqb aobs_eqb (arun a ops) obs in vcode ok ok.

(* C15: raw cells (exact rationals), coefficients, origin -> what a read returns *)
Definition calib_case := (list Q * option Q * list Q * list Q)%type.
Definition Ql_eqb (a b : list Q) : bool := list_eqb Qeq_bool a b.
Definition check_calib (c : calib_case) : N :=
  let '(coeffs, origin, raw, got) := c in
  vcode (Ql_eqb (read_calibrated coeffs origin raw) got)
        (Ql_eqb (if is_calibrated coeffs origin
                 then map (fun x => power_sum coeffs (x - match origin with Some o => o | None => 0%Q end) 0
                                    + (match coeffs with [] => x - match origin with Some o => o | None => 0%Q end | _ => 0%Q end))%Q raw
                 else raw) got).
