"""Fail-closed translator: regenerates coq/Gen/*.v from the CURRENT sources under the repo.

Every section is independent: a section that meets a shape it does not know raises
TranslateError; the corresponding Gen file is then removed (so every Coq file depending on it
fails to build and the properties tied to it report the broken tie) while the other sections
are unaffected.  Values (tables, constants, enum members) are read by importing the current
module in a subprocess; only facts that are syntactic by nature come from the `ast`."""
import ast
import hashlib
import json
import os
import subprocess
import sys

sys.path.insert(0, os.path.dirname(os.path.abspath(__file__)))
from coqlit import cstr, cZ, clist, cnat  # noqa: E402

HERE = os.path.dirname(os.path.abspath(__file__))
VERIF = os.path.dirname(HERE)
GEN = os.path.join(VERIF, "coq", "Gen")
PY = "/venv/bin/python"


class TranslateError(Exception):
    pass


def repo_dir():
    return os.environ.get("VERIF_REPO", "/repo")


def run_probe(script, repo, timeout=120):
    env = dict(os.environ)
    env["PYTHONPATH"] = repo
    env["PYTHONHASHSEED"] = "0"
    env["PYTHONDONTWRITEBYTECODE"] = "1"
    p = subprocess.run([PY, os.path.join(HERE, script)], env=env, capture_output=True,
                       text=True, timeout=timeout, cwd="/")
    if p.returncode != 0:
        raise TranslateError("probe %s failed: %s" % (script, p.stderr[-2000:]))
    return json.loads(p.stdout)


def digest(repo, rels):
    h = hashlib.sha256()
    for r in rels:
        with open(os.path.join(repo, r), "rb") as f:
            h.update(f.read())
    return h.hexdigest()


# ----------------------------------------------------------------------------- regex -> re AST

def _sre():
    import re
    return re._parser, re._constants


def regex_to_coq(pattern, flags=0):
    """Parse with Python's own sre parser; emit the Gallina `re` term wrapped in group 0."""
    P, C = _sre()
    if flags not in (0, 32):  # 32 = re.UNICODE, the default for str patterns
        raise TranslateError("regex flags %r not modelled" % flags)
    try:
        tree = P.parse(pattern)
    except Exception as exc:
        raise TranslateError("cannot parse regex %r: %s" % (pattern, exc))

    def cls_items(items):
        neg = False
        ranges = []
        for op, av in items:
            if op is C.NEGATE:
                neg = True
            elif op is C.LITERAL:
                ranges.append((av, av))
            elif op is C.RANGE:
                ranges.append((av[0], av[1]))
            elif op is C.CATEGORY and av is C.CATEGORY_DIGIT:
                ranges.append((48, 57))  # ASCII digits only: modelled domain (DESIGN 5/C09)
            else:
                raise TranslateError("character class item %r not modelled" % ((op, av),))
        return "(Cls %s %s)" % ("true" if neg else "false",
                                clist(["(%d,%d)" % r for r in ranges], "(N*N)"))

    def seq(sub):
        parts = [node(x) for x in sub]
        if not parts:
            return "Eps"
        return "(seqs %s)" % clist(parts) if len(parts) > 1 else parts[0]

    def node(x):
        op, av = x
        if op is C.LITERAL:
            return "(Chr %d)" % av
        if op is C.NOT_LITERAL:
            return "(Cls true [(%d,%d)])" % (av, av)
        if op is C.IN:
            return cls_items(av)
        if op is C.ANY:
            return "(Cls true [(10,10)])"
        if op is C.BRANCH:
            return "(alts %s)" % clist([seq(b) for b in av[1]])
        if op is C.SUBPATTERN:
            group, add_flags, del_flags, p = av
            if add_flags or del_flags:
                raise TranslateError("inline flags not modelled")
            inner = seq(p)
            return inner if group is None else "(Grp %d %s)" % (group, inner)
        if op is C.MAX_REPEAT:
            lo, hi, p = av
            inner = seq(p)
            if (lo, hi) == (0, 1):
                return "(Opt %s)" % inner
            if lo == 0 and hi is C.MAXREPEAT:
                return "(Star %s)" % inner
            if lo == 1 and hi is C.MAXREPEAT:
                return "(Plus %s)" % inner
            raise TranslateError("repeat {%s,%s} not modelled" % (lo, hi))
        if op is C.AT:
            if av is C.AT_BEGINNING:
                return "Bol"
            if av is C.AT_END:
                return "Eol"
            raise TranslateError("anchor %r not modelled" % (av,))
        raise TranslateError("regex construct %r not modelled" % (op,))

    return "(Grp 0 %s)" % seq(tree)


ENTRY = {"match": "EMatch", "search": "ESearch", "fullmatch": "EFull"}


def _alternatives(tbl, what):
    """'(a|b|c)' -> ['a','b','c']; fail closed if it is anything but a plain alternation"""
    if not (tbl.startswith("(") and tbl.endswith(")")):
        raise TranslateError("%s is not a parenthesised alternation: %r" % (what, tbl))
    alts = tbl[1:-1].split("|")
    for a in alts:
        if not a or any(ch in "()[]{}?*+^$\\." for ch in a):
            raise TranslateError("%s alternative %r is not a literal" % (what, a))
    return alts


def _pow10_exp(text, key):
    from fractions import Fraction
    fr = Fraction(float(text))
    for e in range(-40, 41):
        if abs(fr / Fraction(10) ** e - 1) < Fraction(1, 10 ** 12):
            return e
    raise TranslateError("PREFIX_FACTORS[%r] = %s is not a power of ten" % (key, text))


def gen_units(repo):
    d = run_probe("probe_units.py", repo)
    out = []
    w = out.append
    w("(* GENERATED by harness/translate.py from nixio/util/units.py -- do not edit *)")
    w("(* source sha256: %s *)" % digest(repo, ["nixio/util/units.py"]))
    w("From NixV Require Import Base.Prelude Pure.Regex.")
    w("Open Scope N_scope.")
    prefixes = _alternatives(d["PREFIXES"], "PREFIXES")
    units = _alternatives(d["UNITS"], "UNITS")
    w("Definition prefixes : list str := %s." % clist([cstr(p) for p in prefixes], "str"))
    w("Definition units : list str := %s." % clist([cstr(u) for u in units], "str"))
    pf = d["PREFIX_FACTORS"]
    w("Definition prefix_exps : list (str * Z) := %s." % clist(
        ["(%s, %s)" % (cstr(k), cZ(_pow10_exp(v, k))) for k, v in pf.items()], "(str * Z)"))

    def one(name, rec, n_expected):
        if "error" in rec:
            raise TranslateError("%s raised during probing: %s" % (name, rec["error"]))
        calls = rec["calls"]
        if len(calls) != n_expected:
            raise TranslateError("%s applies %d regexes, expected %d" % (name, len(calls), n_expected))
        return calls

    (c,) = one("is_atomic", d["is_atomic"], 1)
    w("Definition re_is_atomic : re := %s." % regex_to_coq(c["pattern"], c["flags"]))
    w("Definition entry_is_atomic : entry := %s." % ENTRY[c["entry"]])
    (c,) = one("is_compound", d["is_compound"], 1)
    w("Definition re_is_compound : re := %s." % regex_to_coq(c["pattern"], c["flags"]))
    w("Definition entry_is_compound : entry := %s." % ENTRY[c["entry"]])
    calls = one("split", d["split"], 3)
    items = []
    for c in calls:
        gi = c["groupindex"]
        for k in gi:
            if k not in ("prefix", "unit", "power"):
                raise TranslateError("split: unknown named group %r" % k)
        if "unit" not in gi:
            raise TranslateError("split: attempt without a 'unit' group")
        items.append("(%s, %s, (%s, %s, %s))" % (
            ENTRY[c["entry"]], regex_to_coq(c["pattern"], c["flags"]),
            cnat(gi.get("prefix", 0)), cnat(gi["unit"]), cnat(gi.get("power", 0))))
    w("(* the attempts of split(), in the order the code tries them; (prefix,unit,power) group")
    w("   numbers, 0 = the attempt has no such group *)")
    w("Definition split_attempts : list (entry * re * (nat * nat * nat)) := %s." % clist(items))
    calls = d["split_compound"]["calls"]
    if "error" in d["split_compound"] or not calls:
        raise TranslateError("split_compound probe failed")
    pats = set((c["pattern"], c["entry"], c["flags"]) for c in calls)
    if len(pats) != 1:
        raise TranslateError("split_compound uses more than one pattern")
    (pat, ent, fl), = pats
    w("Definition re_opt_pup : re := %s." % regex_to_coq(pat, fl))
    w("Definition entry_opt_pup : entry := %s." % ENTRY[ent])
    return "\n".join(out) + "\n"


def gen_fileconsts(repo):
    d = run_probe("probe_file.py", repo)
    out = []
    w = out.append
    w("(* GENERATED by harness/translate.py from nixio/file.py -- do not edit *)")
    w("(* source sha256: %s *)" % digest(repo, ["nixio/file.py"]))
    w("From NixV Require Import Base.Prelude.")
    ver = d["HDF_FF_VERSION"]
    if len(ver) != 3:
        raise TranslateError("HDF_FF_VERSION is not a triple: %r" % (ver,))
    w("Definition lib_version : list Z := %s." % clist([cZ(v) for v in ver], "Z"))
    w("Definition file_format : str := %s." % cstr(d["FILE_FORMAT"]))
    cmps = d["check_header_tuple_compares"]
    if len(cmps) != 1 or cmps[0]["left"] != "self.version" or cmps[0]["op"] != "GtE":
        raise TranslateError("_check_header: expected exactly one `self.version >= (..)` test, found %r" % (cmps,))
    w("(* from this format version on, a file must carry a valid id *)")
    w("Definition id_required_from : list Z := %s." % clist([cZ(v) for v in cmps[0]["tuple"]], "Z"))
    m = d["modes"]
    w("Definition mode_letters : list (str * str) := [(%s, %s); (%s, %s); (%s, %s)]." % (
        cstr("ReadOnly"), cstr(m["ReadOnly"]), cstr("ReadWrite"), cstr(m["ReadWrite"]),
        cstr("Overwrite"), cstr(m["Overwrite"])))
    # File.flush / File.close as sequences of calls (C17)
    w("(* what File.flush() and File.close() do, in order: the HDF5 flush, the HDF5 close, or a call that")
    w("   does not touch the file *)")
    w("Inductive fcall := CH5Flush | CH5Close | CNoFileEffect.")
    known = {"self._h5file.flush": "CH5Flush", "self._h5file.close": "CH5Close", "gc.collect": "CNoFileEffect"}
    for key in ("flush_body", "close_body"):
        items = []
        for c in d[key]:
            if c not in known:
                raise TranslateError("File.%s: statement %r is not modelled" % (key[:-5], c))
            items.append(known[c])
        w("Definition file_%s : list fcall := %s." % (key, clist(items, "fcall")))
    return "\n".join(out) + "\n"



FMT_ITEMS = {"Y": "FYear", "m": "FMonth", "d": "FDay", "H": "FHour", "M": "FMin", "S": "FSec"}


def fmt_items(fmt):
    out = []
    i = 0
    while i < len(fmt):
        c = fmt[i]
        if c == "%":
            if i + 1 >= len(fmt) or fmt[i + 1] not in FMT_ITEMS:
                raise TranslateError("format directive %r not modelled" % fmt[i:i + 2])
            out.append(FMT_ITEMS[fmt[i + 1]])
            i += 2
        else:
            out.append("(FLit %d%%N)" % ord(c))
            i += 1
    return clist(out, "fitem")


def gen_touch(repo):
    d = run_probe("probe_touch.py", repo)
    out = []
    w = out.append
    w("(* GENERATED by harness/translate.py from nixio/*.py (ast) -- do not edit *)")
    w("From NixV Require Import Base.Prelude.")
    w("(* items of a strftime/strptime format *)")
    w("Inductive fitem := FYear | FMonth | FDay | FHour | FMin | FSec | FLit (c : N).")
    f = d["formats"]
    if set(f) != {"time_to_str", "str_to_time"} or f["time_to_str"]["call"] != "strftime" or f["str_to_time"]["call"] != "strptime":
        raise TranslateError("time_to_str/str_to_time: expected one strftime and one strptime format, found %r" % (f,))
    w("Definition fmt_time_to_str : list fitem := %s." % fmt_items(f["time_to_str"]["format"]))
    w("Definition fmt_str_to_time : list fitem := %s." % fmt_items(f["str_to_time"]["format"]))
    w("(* (class, setter or method) whose body performs the guarded update")
    w("   `if self.file.auto_update_timestamps: <set updated_at>` *)")
    items = ["(%s, %s)" % (cstr(t["class"]), cstr(t["name"])) for t in d["touch"]]
    w("Definition auto_touch_table : list (str * str) := %s." % clist(items, "(str * str)"))
    return "\n".join(out) + "\n"


SECTIONS = {
    "Units": gen_units,
    "FileConsts": gen_fileconsts,
    "Touch": gen_touch,
}


def write_if_changed(path, text):
    try:
        with open(path) as f:
            if f.read() == text:
                return False
    except OSError:
        pass
    tmp = path + ".tmp%d" % os.getpid()
    with open(tmp, "w") as f:
        f.write(text)
    os.replace(tmp, path)
    return True


def translate(sections=None, repo=None):
    """returns {section: None | error-text}"""
    repo = repo or repo_dir()
    os.makedirs(GEN, exist_ok=True)
    res = {}
    for name in (sections or SECTIONS):
        path = os.path.join(GEN, name + ".v")
        try:
            text = SECTIONS[name](repo)
            write_if_changed(path, text)
            res[name] = None
        except TranslateError as exc:
            res[name] = str(exc)
            # fail closed: a stale Gen file must not survive
            for ext in (".v", ".vo", ".vok", ".vos", ".glob"):
                try:
                    os.remove(os.path.join(GEN, name + ext))
                except OSError:
                    pass
        except subprocess.TimeoutExpired:
            res[name] = "probe timed out"
    return res


if __name__ == "__main__":
    r = translate(sys.argv[1:] or None)
    for k, v in r.items():
        print("%s: %s" % (k, "ok" if v is None else "FAILED: " + v))
    sys.exit(0 if all(v is None for v in r.values()) else 1)
