(* Props/C05.v -- links are aliases of the original entity, never copies.  ONLY property
   theorems.  A link is a second name for the SAME address; the API programs that create links
   (group member lists, references, source lists, metadata, positions/extents, feature data,
   section link) all call add_link with the address their argument handle designates. *)
From NixV Require Import Base.Prelude H5.Store Nix.Api Proofs.StoreLemmas Proofs.AtomicProofs Proofs.AtomicProofs2.
Open Scope N_scope.

(* a created link resolves to the address it was given: the entity itself *)
Theorem c05_link_is_alias : forall s a k x, (a < length (nodes s))%nat ->
  child (add_link s a k x) a k = Some x.
Proof. exact child_add_link_same. Qed.
Print Assumptions c05_link_is_alias.

(* creating a link changes no attribute of any node: the target is not copied or altered *)
Theorem c05_link_keeps_attrs : forall s a l b k, get_attr (set_links s a l) b k = get_attr s b k.
Proof. exact get_attr_set_links. Qed.
Print Assumptions c05_link_keeps_attrs.

(* a write through one path is what every other path to the same address reads *)
Theorem c05_write_seen_through_all_paths : forall s p1 k1 p2 k2 x key v,
  child s p1 k1 = Some x -> child s p2 k2 = Some x -> (x < length (nodes s))%nat ->
  forall y1 y2,
  child (set_attr s x key v) p1 k1 = Some y1 -> child (set_attr s x key v) p2 k2 = Some y2 ->
  y1 = x /\ y2 = x /\ get_attr (set_attr s x key v) y1 key = v /\ get_attr (set_attr s x key v) y2 key = v.
Proof.
  intros s p1 k1 p2 k2 x key v H1 H2 Hx y1 y2 E1 E2.
  unfold child in *. rewrite links_set_attr in E1, E2.
  assert (y1 = x) by congruence. assert (y2 = x) by congruence. subst y1 y2.
  repeat split; apply get_attr_set_same; exact Hx.
Qed.
Print Assumptions c05_write_seen_through_all_paths.

(* a refused append leaves the list (and everything else) unchanged *)
Theorem c05_refused_append_unchanged : forall ph l x, atomic same (api_append ph l x).
Proof. exact atomic_api_append. Qed.
Print Assumptions c05_refused_append_unchanged.

(* Feature.data = x, accepted (x an array or a data frame of the tag's block): the feature's data IS x - the link
   resolves to x's address - and the feature records, hence presents, x's kind *)
From NixV Require Import Proofs.FeatureProofs.
Theorem c05_feature_data_is_alias : forall ph x' now s s' p x,
  nth_error (hs s) (N.to_nat ph) = Some p -> nth_error (hs s) (N.to_nat x') = Some x ->
  (ha p < length (nodes (sto s)))%nat ->
  api_set_link ph RFeatureData (Some x') now s = (s', inl tt) ->
  child (sto s') (ha p) (TS s_data) = Some (ha x) /\
  get_attr (sto s') (ha p) s_target_type =
    Some (AText (TS (if ekind_eqb (hk x) KDataFrame then s_DataFrame else s_DataArray))).
Proof. exact feature_data_set. Qed.
Print Assumptions c05_feature_data_is_alias.

(* ---- dimensions linked to an array (model: Pure/DimLink.v, tied by the dimension histories) *)
From NixV Require Import Pure.DimLink Proofs.DimLinkProofs.
From Coq Require Import ZArith List.

(* a linked range dimension reports the target's current vector as its ticks and the target's unit
   and label as its own - also after any sequence of later writes to the target *)
Theorem c05_linked_dimension_is_alias : forall ops s idx,
  forallb is_target_op ops = true -> r_link (rd s) = Some idx ->
  let s' := fold_left (fun st o => fst (dstep st o)) ops s in
  get_ticks s' = link_values (tg s') idx /\ get_unit s' = t_unit (tg s') /\ get_label s' = t_label (tg s').
Proof. exact alias_after_target_writes. Qed.
Print Assumptions c05_linked_dimension_is_alias.
Theorem c05_linked_set_dimension : forall s idx, s_link (sd s) = Some idx -> get_labels s = link_values (tg s) idx.
Proof. exact linked_set_is_alias. Qed.
Print Assumptions c05_linked_set_dimension.
(* a unit or label set through the linked dimension is set on the target *)
Theorem c05_dimension_write_through : forall s idx u, r_link (rd s) = Some idx ->
  (let s' := fst (dstep s (RSetUnit u)) in
   t_unit (tg s') = Some u /\ rd s' = rd s /\ sd s' = sd s /\ t_label (tg s') = t_label (tg s) /\ t_cells (tg s') = t_cells (tg s)) /\
  (let s' := fst (dstep s (RSetLabel u)) in
   t_label (tg s') = Some u /\ rd s' = rd s /\ sd s' = sd s /\ t_unit (tg s') = t_unit (tg s) /\ t_cells (tg s') = t_cells (tg s)).
Proof. intros s idx u H. split; [apply (set_unit_through_link s idx u H) | apply (set_label_through_link s idx u H)]. Qed.
Print Assumptions c05_dimension_write_through.
(* setting explicit ticks replaces the link and vice versa *)
Theorem c05_ticks_and_link_replace_each_other : forall s,
  (forall l, descends l = false ->
     let s' := fst (dstep s (RSetTicks l)) in
     snd (dstep s (RSetTicks l)) = None /\ r_link (rd s') = None /\ get_ticks s' = Some l /\ tg s' = tg s /\ sd s' = sd s) /\
  (forall idx, link_check (tg s) idx = None ->
     let s' := fst (dstep s (RLink idx)) in
     snd (dstep s (RLink idx)) = None /\ r_ticks (rd s') = None /\ r_link (rd s') = Some idx /\
     get_ticks s' = link_values (tg s) idx /\ tg s' = tg s /\ sd s' = sd s).
Proof. intros s. split; [intros l H; apply ticks_replace_link, H | intros idx H; apply link_replaces_ticks, H]. Qed.
Print Assumptions c05_ticks_and_link_replace_each_other.

(* non-vacuity (Proofs/NonVacuous.v; concrete reachable states, by vm_compute) *)
From NixV Require Proofs.NonVacuous.
(* a state with a linked range dimension: refused and accepted calls both exist *)
Example c05_dimension_hypotheses_met := NonVacuous.nv_dim.
Check c05_dimension_hypotheses_met.
Print Assumptions c05_dimension_hypotheses_met.
