(* Props/C10.v -- metadata properties hold typed value lists; sections behave like ordered dicts.
   ONLY property theorems, over Pure/Values.v (get_dtype with bool before int, create_property,
   values / extend_values, the dictionary protocol of Section) and the histories of
   Pure/ValuesCheck.v. *)
From Coq Require Import ZArith List.
From NixV Require Import Base.Prelude Pure.Values Pure.ValuesCheck Proofs.ValuesProofs.
Import ListNotations.
Open Scope Z_scope.

(* after ANY history of creates / assignments / extends / clears / dictionary operations, every
   stored value has the type the property was created with *)
Theorem c10_typed_invariant : forall ops, sect_ok (run_state (mkS [] []) ops).
Proof. exact typed_invariant. Qed.
Print Assumptions c10_typed_invariant.

Theorem c10_set_reads_back : forall p vals p', set_values p vals = inl p' ->
  p_vals p' = vals /\ p_ty p' = p_ty p /\ well_typed p'.
Proof. exact set_reads_back. Qed.
Print Assumptions c10_set_reads_back.

Theorem c10_extend_appends : forall p vals p', well_typed p -> extend_values p vals = inl p' ->
  p_vals p' = p_vals p ++ vals /\ p_ty p' = p_ty p /\ well_typed p'.
Proof. exact extend_appends. Qed.
Print Assumptions c10_extend_appends.

(* mixed types: a type error wherever the odd element stands; refused calls change nothing *)
Theorem c10_mixed_refused : forall ty pre odd post t,
  Forall (fun v => get_dtype v = Some ty) pre -> get_dtype odd = Some t -> t <> ty ->
  check_types ty (pre ++ odd :: post) = Some ETypeError.
Proof. exact mixed_refused. Qed.
Print Assumptions c10_mixed_refused.

Theorem c10_refused_unchanged : forall s o s' e,
  vstep s o = (s', [2; e]) -> s' = s.
Proof. exact refused_unchanged. Qed.
Print Assumptions c10_refused_unchanged.

Theorem c10_bool_is_not_int : forall b z,
  set_values (mkP TInt []) [VBool b] = inr ETypeError /\ set_values (mkP TBool []) [VInt z] = inr ETypeError /\
  extend_values (mkP TInt [VInt 1]) [VBool b] = inr ETypeError /\ extend_values (mkP TFloat []) [VInt z] = inr ETypeError.
Proof. exact bool_is_not_int. Qed.
Print Assumptions c10_bool_is_not_int.

Theorem c10_dict_get_after_set : forall s k vals s', sec_set s k vals = inl s' -> vals <> [] ->
  sec_get s' k = inl (IValues vals).
Proof. exact dict_get_after_set. Qed.
Print Assumptions c10_dict_get_after_set.

Theorem c10_dict_contains : forall s k, sec_contains s k = true <-> In k (sec_keys s).
Proof. exact dict_contains. Qed.
Print Assumptions c10_dict_contains.

Theorem c10_dict_del : forall s k s', sec_del s k = inl s' ->
  lookup k (s_props s') = None /\ s_subs s' = s_subs s /\
  forall k', k' <> k -> lookup k' (s_props s') = lookup k' (s_props s).
Proof. exact dict_del. Qed.
Print Assumptions c10_dict_del.
