(* Pure/Slices.v -- index expressions on arrays and views (nixio/data_view.py, data_set.py).
   np_norm   : what NumPy (and h5py, for basic indexing with positive steps) selects
   view_norm : DataView._transform_coordinates on a window of the array
   gather    : the cells a normalised selection addresses, row-major *)
From Coq Require Import ZArith List Bool.
Import ListNotations.
Open Scope Z_scope.

Inductive ix := IInt (z : Z) | ISlice (a b st : option Z) | IEll.
Inductive axsel := AInt (i : Z) | ARange (start stop step : Z).     (* normalised; step > 0 *)
Inductive ierr := EIndexErr | EValueErr | EOob | ETypeErr.

(* slice.indices(len) -- PySlice_AdjustIndices *)
Definition clamp_pos (len v : Z) : Z :=
  if v <? 0 then (if v + len <? 0 then 0 else v + len) else (if len <=? v then len else v).
Definition clamp_neg (len v : Z) : Z :=
  if v <? 0 then (if v + len <? 0 then -1 else v + len) else (if len <=? v then len - 1 else v).
Definition indices (a b st : option Z) (len : Z) : option (Z * Z * Z) :=
  let step := match st with None => 1 | Some k => k end in
  if step =? 0 then None else
  if 0 <? step then
    Some (match a with None => 0 | Some v => clamp_pos len v end,
          match b with None => len | Some v => clamp_pos len v end, step)
  else
    Some (match a with None => len - 1 | Some v => clamp_neg len v end,
          match b with None => -1 | Some v => clamp_neg len v end, step).

(* ---- expansion of an index tuple to one item per axis (ellipsis, padding at the end) *)
Definition is_ell (i : ix) : bool := match i with IEll => true | _ => false end.
Definition full : ix := ISlice None None None.
Fixpoint expand_at (e : list ix) (npad : nat) : list ix :=
  match e with
  | [] => []
  | IEll :: r => repeat full npad ++ r
  | x :: r => x :: expand_at r npad
  end.
(* None: more than one ellipsis.  [strict]: NumPy refuses a tuple longer than the rank; the
   view pads with a negative count = nothing and zip() drops the surplus *)
Definition expand (rank : nat) (e : list ix) : option (list ix) :=
  let nell := length (filter is_ell e) in
  if Nat.ltb 1 nell then None
  else if Nat.eqb nell 1 then Some (expand_at e (rank + 1 - length e))
  else Some (e ++ repeat full (rank - length e)).

(* ---- NumPy on one axis of length len *)
Definition np_axis (len : Z) (i : ix) : axsel + ierr :=
  match i with
  | IInt z => let z' := if z <? 0 then z + len else z in
              if (z' <? 0) || (len <=? z') then inr EIndexErr else inl (AInt z')
  | ISlice a b st =>
      match indices a b st len with
      | None => inr EValueErr
      | Some (s, e, k) => if k <? 0 then inr EValueErr          (* h5py: step must be >= 1 *)
                          else inl (ARange s (if e <? s then s else e) k)
      end
  | IEll => inr ETypeErr
  end.

Fixpoint map2_err {A B} (f : A -> B -> axsel + ierr) (l1 : list A) (l2 : list B) : list axsel + ierr :=
  match l1, l2 with
  | x :: r1, y :: r2 => match f x y with
                        | inl s => match map2_err f r1 r2 with inl l => inl (s :: l) | inr e => inr e end
                        | inr e => inr e
                        end
  | _, _ => inl []
  end.

Definition np_norm (shape : list Z) (e : list ix) : list axsel + ierr :=
  match expand (length shape) e with
  | None => inr EIndexErr
  | Some ex => if Nat.ltb (length shape) (length ex) then inr EIndexErr   (* too many indices *)
               else map2_err np_axis shape ex
  end.

(* ---- DataView: a window (start, stop) per axis, step 1 *)
Definition view_axis (w : Z * Z) (i : ix) : axsel + ierr :=
  let '(a, z) := w in
  match i with
  | IInt u => let t := if u <? 0 then z + u else u + a in
              if (t <? a) || (z <=? t) then inr EOob else inl (AInt t)
  | ISlice sa sb st =>
      let n := z - a in
      match indices sa sb st n with
      | None => inr EValueErr
      | Some (us, ue, k) =>
          let ue' := if ue <? 0 then n + ue else ue in
          let ts := a + us in let te := a + ue' in
          if z <? te then inr EOob
          else if k <? 0 then inr EValueErr
          else if ts <? a then inr EOob
          else if z <? te then inr EOob
          else inl (ARange ts (if te <? ts then ts else te) k)
      end
  | IEll => inr ETypeErr
  end.
Definition view_norm (w : list (Z * Z)) (e : list ix) : list axsel + ierr :=
  match expand (length w) e with
  | None => inr EIndexErr
  | Some ex => map2_err view_axis w ex          (* zip: surplus indices are dropped *)
  end.

(* DataView.__init__ on slices (p, p + e) of get_slice(positions, extents) in index mode:
   valid iff every stop is within the extent; then normalised with indices(len) *)
Definition view_window (shape : list Z) (pe : list (Z * Z)) : option (list (Z * Z)) :=
  if negb (Nat.eqb (length shape) (length pe)) then None
  else if existsb (fun x => snd x <? fst (fst x) + snd (fst x)) (combine pe shape) then None
  else Some (map (fun x => let '((p, e), len) := x in
                           match indices (Some p) (Some (p + e)) None len with
                           | Some (s, t, _) => (s, t)
                           | None => (0, 0)
                           end) (combine pe shape)).

(* ---- the cells a selection addresses *)
Fixpoint range_list (fuel : nat) (start stop step : Z) : list Z :=
  match fuel with
  | O => []
  | S f => if start <? stop then start :: range_list f (start + step) stop step else []
  end.
Definition sel_indices (s : axsel) : list Z :=
  match s with
  | AInt i => [i]
  | ARange a b k => range_list (Z.to_nat (b - a)) a b k
  end.
Definition sel_keeps_axis (s : axsel) : bool := match s with AInt _ => false | _ => true end.
Fixpoint product (ls : list (list Z)) : list (list Z) :=
  match ls with
  | [] => [[]]
  | l :: r => flat_map (fun x => map (cons x) (product r)) l
  end.
(* row-major offset of a multi-index *)
Fixpoint sizeZ (shape : list Z) : Z := match shape with [] => 1 | l :: r => l * sizeZ r end.
Fixpoint flat_index (shape idx : list Z) : Z :=
  match shape, idx with
  | _ :: sr, i :: ir => i * sizeZ sr + flat_index sr ir
  | _, _ => 0
  end.
(* row-major flat offsets of the selected cells, and the shape of the result (int axes dropped) *)
Definition gather (shape : list Z) (sels : list axsel) : list Z * list Z :=
  (map (fun s => Z.of_nat (length (sel_indices s))) (filter sel_keeps_axis sels),
   map (fun idx => flat_index shape idx) (product (map sel_indices sels))).

Definition shift (a : Z) (s : axsel) : axsel :=
  match s with AInt i => AInt (a + i) | ARange x y k => ARange (a + x) (a + y) k end.
