"""C20 -- copies are complete, independent, and keep their internal links."""
import os
import sys

sys.path.insert(0, os.path.dirname(os.path.dirname(os.path.abspath(__file__))))
import storeprop  # noqa: E402
from props.c04 import PRELUDES  # noqa: E402  (link-rich starting topologies)

ID = "C20"
THEOREMS = ["c20_complete", "c20_copy_establishes", "c20_internal_links", "c20_destination_untouched", "c20_copy_independent",
            "c20_source_independent", "c20_fresh_ids", "c20_existing_name_refused"]
# scripted copies of every kind x id policy x recursive flag on sources that have content (handles: 0 = file)
COPY_PRELUDES = [
    # kept-id copies INSIDE the parent (two arrays / two sub-sections with one id), then the parent copied with FRESH ids:
    # the copy's ids must be pairwise different all the same
    [["create", 0, "CBlocks", "B", "t", []], ["create", 1, "CDataArrays", "a", "t", [1, 2]], ["copy", 1, 2, "a-copy", True, True],
     ["copy", 0, 1, "B-fresh", False, True], ["create", 0, "CSections", "s", "t", []], ["create", 5, "CSections", "sub", "t", []],
     ["create", 6, "CProperties", "p", "t", [1]], ["copy", 5, 6, "sub-copy", True, True], ["copy", 0, 5, "s-fresh", False, True]],
    # sections: s(1){p(2), q(3), c(4){r(5)}}, d(6); every variant of copy_section / property copy
    [["create", 0, "CSections", "s", "t", []], ["create", 1, "CProperties", "p", "t", [1, 2]], ["create", 1, "CProperties", "q", "t", [3]],
     ["create", 1, "CSections", "c", "t", []], ["create", 4, "CProperties", "r", "t", [4]], ["create", 0, "CSections", "d", "t", []],
     ["copy", 6, 1, None, False, False], ["copy", 6, 1, "x1", True, False], ["copy", 6, 1, "x2", False, True],
     ["copy", 0, 1, "x3", False, False], ["copy", 0, 1, "x4", False, True], ["copy", 6, 2, "pp", False, True],
     ["copy", 6, 4, "x5", False, False], ["probe", 6, "CSections"], ["probe", 0, "CSections"]],
    # a block with everything linked: B(1){a(2), b(3), g(4), t(5), m(6), df(7), src(8)}, B2(9)
    [["create", 0, "CBlocks", "B", "t", []], ["create", 1, "CDataArrays", "a", "t", [1, 2]], ["create", 1, "CDataArrays", "b", "t", [3]],
     ["create", 1, "CGroups", "g", "t", []], ["create", 1, "CTags", "t", "t", [1]], ["create_mtag", 1, "m", "t", 3],
     ["create", 1, "CDataFrames", "df", "t", [5, 6]], ["create", 1, "CSources", "src", "t", []], ["create", 0, "CBlocks", "B2", "t", []],
     ["append", 4, "LDataArrays", 2], ["append", 4, "LTags", 5], ["append", 4, "LDataFrames", 7], ["append", 4, "LSources", 8],
     ["append", 5, "LReferences", 2], ["append", 5, "LReferences", 3], ["create_feature", 5, 3, "tagged"], ["append", 2, "LSources", 8],
     ["copy", 0, 1, "B3", False, True], ["copy", 9, 2, None, False, True], ["copy", 9, 5, None, False, True],
     ["copy", 9, 6, None, False, True], ["copy", 9, 7, None, False, True], ["copy", 0, 1, "B4", True, True]],
]
PROFILE = {"xfile": True, "preludes": COPY_PRELUDES + PRELUDES, "prelude_prob": 0.7, "track_pairs": True, "max_copies": 4,
           "weights": {"copy": 7, "create": 10, "mtag": 2, "feature": 2, "append": 6, "set_link": 5, "set_attr": 6, "delete": 2,
                       "remove": 2, "lookup": 2, "lookup_link": 1, "probe": 1, "probe_link": 1, "reopen": 0.4, "bad": 0.3}}
RULE = ("histories that build entities of every kind with links among them (group members, tag references and features, "
        "multi-tag positions/extents, source lists, metadata links, nested sections with properties), interleaved with up to 4 "
        "copy calls of every copyable kind (block->file, array/tag/multi-tag->block, section->file/section, property->section) "
        "with kept or fresh ids, with or without a new name (an existing name must be refused), recursive or not, and with "
        "further mutations of either side; 60% of the histories start from a link-rich prelude (arrays in several groups, tag "
        "references and features, multi-tag positions, nested sources in source lists, nested sections as metadata). For block "
        "copies every internal link of the copy is followed and compared, as an HDF5 object, with the copy's own entities. After each history every block and top-level section is copied into a SECOND file with kept "
        "and with fresh ids (content, internal links, independence in both directions checked on the real files; no model).")


def predicate(h):
    out = []
    tr = h["trace"]
    for i, (op, res) in enumerate(zip(h["ops"], h["results"])):
        info = h["infos"][i]
        if op[0] == "copy":
            if res[0] == "err":
                if i > 0 and tr[i][1] != tr[i - 1][1]:
                    out.append(("a refused copy changed the file", i, {"op": op, "error": res[2]}))
            else:
                ev = info.get("copy") or {}
                for p in ev.get("problems", []):
                    out.append((p, i, {"op": op}))
        # independence: one call changes at most one side of a (source, copy) pair
        if i > 0 and op[0] != "reopen" and op[0] != "copy":
            prev = {p[0]: p for p in h["infos"][i - 1].get("pairs", [])}
            for p in info.get("pairs", []):
                q = prev.get(p[0])
                if q is None:
                    continue
                if p[2] != q[2] and p[3] != q[3]:
                    tid = h["target_ids"][i]
                    # "a change made to the copy" = a call on an entity the copy (or the source) OWNS; a call on a third
                    # entity both sides merely link to (a source both tags list, deleted from the source tree) legitimately
                    # shows on both sides
                    own = (p[6], p[7]) if len(p) > 7 else (p[4], p[5])
                    linked_across = (len(p) > 8 and p[8]) or (len(q) > 8 and q[8])      # before or after this call
                    if tid is not None and (tid in own[0] or tid in own[1]) and not linked_across:
                        out.append(("one call changed both the source and its copy", i,
                                    {"op": op, "copy_step": p[0], "kept_ids": p[1]}))
    for p in (h.get("xfile") or {}).get("problems", []):
        out.append((p, len(h["ops"]) - 1, {"phase": "cross-file copies after the history"}))
    return out


def keepid_delete(v, h):
    """known finding: with kept ids inside one file, the ids are no longer unique and deletion (which unlinks by id, file-wide)
    removes the same-id entity on the other side as well"""
    what, step, detail = v
    if not (what.startswith("one call changed both") and h["ops"][step][0] == "delete"):
        return False
    if detail.get("kept_ids"):
        return True
    # the pair that reports it may be a fresh-id pair: what matters is that the entity deleted here had a same-id twin
    # (made by SOME earlier kept-id copy in this file) - the deletion then makes a duplicated id disappear from the
    # walker's list of duplicated ids
    if step == 0:
        return False
    before = set(h["infos"][step - 1].get("dup_ids", []))
    after = set(h["infos"][step].get("dup_ids", []))
    if before - after:
        return True
    # twins that are only reached through link lists (the sources a copied tag lists are copied with it, ids kept) are
    # not "defined" twice in the walk: the premise of the finding is then read off the history - an earlier successful
    # copy with kept ids inside this file
    return any(op[0] == "copy" and op[4] and res[0] == "ok" for op, res in zip(h["ops"][:step], h["results"][:step]))


def run(ctx):
    return storeprop.run(ctx, ID, THEOREMS, "Props/C20.v", PROFILE, (30, 44), 80, 700, predicate, RULE,
                         known_matchers={"keepid_delete": keepid_delete})


def replay(ctx):
    return storeprop.replay(ctx, ID, predicate, known_matchers={"keepid_delete": keepid_delete})
