(* Props/C18.v -- format upgrade preserves content, is idempotent, resumable after interruption.
   ONLY property theorems, over the micro-step machine of Pure/Upgrade.v (nixio/cmd/upgrade.py). *)
From NixV Require Import Base.Prelude Gen.FileConsts Pure.Version Pure.Upgrade Proofs.UpgradeProofs.
Open Scope Z_scope.

(* the header version is raised only after every other step: after ANY proper prefix of the
   steps the file still carries its old version *)
Theorem c18_version_last : forall f pre post,
  up_to_date f = false -> collect f = pre ++ post -> post <> [] -> ver (run f pre) = ver f.
Proof. exact version_last. Qed.
Print Assumptions c18_version_last.

(* interrupted after any prefix, run again: the same file as an uninterrupted run *)
Theorem c18_resume : forall f pre post,
  up_to_date f = false -> collect f = pre ++ post -> upgrade (run f pre) = upgrade f.
Proof. exact resume. Qed.
Print Assumptions c18_resume.

Theorem c18_result : forall f, up_to_date f = false -> upgrade f = final f.
Proof. exact upgrade_final. Qed.
Print Assumptions c18_result.

Theorem c18_idempotent : forall f, upgrade (upgrade f) = upgrade f.
Proof. exact idempotent. Qed.
Print Assumptions c18_idempotent.
Theorem c18_nothing_left : forall f, collect (upgrade f) = [].
Proof. exact nothing_left. Qed.
Print Assumptions c18_nothing_left.
Theorem c18_up_to_date_untouched : forall f, up_to_date f = true -> upgrade f = f /\ collect f = [].
Proof. exact up_to_date_untouched. Qed.
Print Assumptions c18_up_to_date_untouched.

(* content: the values of every property, the number of dimensions; nothing old remains *)
Theorem c18_content : forall f, up_to_date f = false ->
  map values_of (props (upgrade f)) = map values_of (props f) /\
  length (dims (upgrade f)) = length (dims f) /\
  Forall (fun p => is_old p = false) (props (upgrade f)) /\
  Forall (fun d => is_alias d = false) (dims (upgrade f)).
Proof. exact content_kept. Qed.
Print Assumptions c18_content.

(* the upgraded file passes the version gate for writing (C11) *)
Theorem c18_openable : forall f, up_to_date f = false -> length lib_version = 3%nat ->
  check_header RW (header_of (upgrade f)) = Opened.
Proof. exact openable. Qed.
Print Assumptions c18_openable.
