"""C09 -- SI unit recognition and scaling are exact and consistent."""
import os
import random
import sys

sys.path.insert(0, os.path.dirname(os.path.dirname(os.path.abspath(__file__))))
import core  # noqa: E402
import translate as T  # noqa: E402
from coqlit import cstr, cZ, cN, cbool, clist  # noqa: E402

ID = "C09"
THEOREMS = ["c09_table_is_SI", "c09_split_exact", "c09_scaling", "c09_compose", "c09_invert",
            "c09_not_scalable", "c09_compound", "c09_sanitizer_idem_partial",
            "c09_sanitizer_idem_refuted"]
POWERS = ["", "^1", "^2", "^3", "^-1", "^-2", "^-3"]
HEADER = ("From NixV Require Import Base.Prelude Pure.Regex Gen.Units Pure.Units Pure.UnitsCheck.\n"
          "Open Scope N_scope.\n")


def sres(r):
    if r[0] == "ok":
        return "(SOk %s)" % cZ(r[1])
    if r[0] == "refused":
        return "SRefused"
    return "SError"


def triple(t):
    return "(%s, %s, %s)" % (cstr(t[0]), cstr(t[1]), cstr(t[2]))


def idx3(t):
    return "(%s, %s, %s)" % (cN(t[0]), cN(t[1]), cN(t[2]))


def run(ctx):
    rnd = random.Random(ctx.seed)
    thorough = ctx.tier == "thorough"
    st = core.proof_stage(ctx, ["Units"],
                          ["Pure/UnitsCheck.vo", "Props/C09.vo"], "Props/C09.v", THEOREMS)
    ctx.trusted_base = [
        "Coq 8.16.1 kernel incl. vm_compute (sweep lemmas); no native_compute",
        "harness/translate.py section Units: tables read by import, regexes captured at run time "
        "through an instrumented `re`, parsed with Python's sre parser into the Gallina regex AST",
        "Python re semantics for the subset (ordered alternation, greedy ?,*,+, groups, ^,$) = Pure/Regex.v; "
        "\\d modelled as ASCII digits",
        "float factors compared as exponents of ten within 1e-9 relative",
        "hand-written model Pure/Units.v of is_atomic/is_compound/is_si/split/scalable/scaling/sanitizer, "
        "tied by correspondence (this run)",
    ]
    ctx.assumptions = ["every property theorem: Closed under the global context (Print Assumptions)"]

    # the table domain comes from the CURRENT source
    try:
        d = T.run_probe("probe_units.py", ctx.repo)
        prefixes = [""] + T._alternatives(d["PREFIXES"], "PREFIXES")
        units_ = T._alternatives(d["UNITS"], "UNITS")
    except Exception as exc:  # translator already reported it
        st["broken"].append("cannot read unit tables: %s" % exc)
        prefixes = [""] + "Y Z E P T G M k h da d c m u n p f a z y".split()
        units_ = "m g s A K mol cd Hz N Pa J W C V F S Wb T H lm lx Bq Gy Sv kat l L Ohm % dB rad".split()
    nP, nU, nK = len(prefixes), len(units_), len(POWERS)

    def text(t):
        return prefixes[t[0]] + units_[t[1]] + POWERS[t[2]]

    atoms = [(ip, iu, ik) for ip in range(nP) for iu in range(nU) for ik in range(nK)]
    # stream 2: same-unit pairs (exhaustive in thorough; a random third of the units in quick,
    # every prefix pair and power for those) + random cross pairs
    if thorough:
        unit_sel = list(range(nU))
    else:
        unit_sel = sorted(rnd.sample(range(nU), max(1, nU // 4)))
    pairs = [((p1, u, k), (p2, u, k)) for u in unit_sel for k in range(nK)
             for p1 in range(nP) for p2 in range(nP)]
    n_same = len(pairs)
    for _ in range(30000 if thorough else 3000):
        a, b2 = rnd.choice(atoms), rnd.choice(atoms)
        pairs.append((a, b2))
    # stream 3: compounds of 2..4 atoms
    compounds = []
    for _ in range(20000 if thorough else 2500):
        n = rnd.randint(2, 4)
        first = rnd.choice(atoms)
        rest = [(rnd.choice("*/"), rnd.choice(atoms)) for _ in range(n - 1)]
        compounds.append((first, rest))

    def ctext(c):
        s = text(c[0])
        for sep, t in c[1]:
            s += sep + text(t)
        return s
    # stream 4: arbitrary strings: mutations of units, blanks, micro signs, junk
    alphabet = list("mkunpVAsgHzOhl%^-+123 */") + ["µ", "μ", "\n", "x", "0", "d", "a", "B", "W", "b", "S", "v", "o"]
    strings = ["", "mmu", "mµ", "mmol", "mSv", "kWb", "mV\n", "V^0", "V^01", "V^+2", "muV", " m V ",
               "mV/", "/s", "mV*s", "mV**s", "Ohm", "ohm", "dB", "da", "dam", "cd", "ccd", "mol", "mmol^2"]
    for _ in range(20000 if thorough else 3000):
        r = rnd.random()
        if r < 0.4:
            s = list(text(rnd.choice(atoms)))
            for _ in range(rnd.randint(0, 2)):
                op = rnd.random()
                pos = rnd.randint(0, len(s))
                if op < 0.4:
                    s.insert(pos, rnd.choice(alphabet))
                elif op < 0.7 and s:
                    del s[min(pos, len(s) - 1)]
                elif s:
                    s[min(pos, len(s) - 1)] = rnd.choice(alphabet)
            strings.append("".join(s))
        elif r < 0.6:
            strings.append(ctext(rnd.choice(compounds))[:rnd.randint(1, 12)])
        else:
            strings.append("".join(rnd.choice(alphabet) for _ in range(rnd.randint(0, 7))))
    # blanks between the letters of "mu" / around micro signs: the clean-up removes blanks FIRST
    strings += ["m uV", "m  us", "N*m us", " m u ", "m \u00b5V", "\u00b5 V", "m u m u", "k m uV", "mu V", "m\tuV"]
    spairs = []
    for _ in range(5000 if thorough else 800):
        a = rnd.choice(strings)
        b2 = rnd.choice(strings) if rnd.random() < 0.5 else text(rnd.choice(atoms))
        spairs.append((a, b2))

    impl = ctx.run_impl("impl_units.py", {
        "atomic": [text(t) for t in atoms],
        "pairs": [(text(a), text(b2)) for a, b2 in pairs],
        "compound": [ctext(c) for c in compounds],
        "strings": strings, "spairs": spairs})

    streams = []
    # --- case literals
    t1 = ["(%s, %s, %s, (%s, %s, %s))" % (cN(t[0]), cN(t[1]), cN(t[2]), cbool(r[0]), cbool(r[1]), triple(r[2]))
          for t, r in zip(atoms, impl["atomic"])]
    streams.append(("atomic", "atomic_case", "check_atomic", t1, [text(t) for t in atoms], impl["atomic"]))

    def pair_lit(r):
        sc = r[0] if isinstance(r[0], bool) else False
        return "(%s, %s)" % (cbool(sc), sres(r[1]))
    t2 = ["(%s, %s, %s)" % (idx3(a), idx3(b2), pair_lit(r)) for (a, b2), r in zip(pairs, impl["pairs"])]
    streams.append(("pairs", "pair_case", "check_pair", t2, [(text(a), text(b2)) for a, b2 in pairs], impl["pairs"]))
    t3 = ["(%s, %s, (%s, %s))" % (idx3(c[0]), clist(["(%s, %s)" % (cN(ord(sep)), idx3(t)) for sep, t in c[1]]),
                                 cbool(r[0]), cbool(r[1])) for c, r in zip(compounds, impl["compound"])]
    streams.append(("compound", "compound_case", "check_compound", t3, [ctext(c) for c in compounds], impl["compound"]))
    t4 = ["(%s, (%s, %s, %s, %s, %s, %s))" % (cstr(s), cbool(r[0]), cbool(r[1]), cbool(r[2]), triple(r[3]), cstr(r[4]), cstr(r[5]))
          for s, r in zip(strings, impl["strings"])]
    streams.append(("strings", "string_case", "check_string", t4, strings, impl["strings"]))
    t5 = ["(%s, %s, %s)" % (cstr(a), cstr(b2), pair_lit(r)) for (a, b2), r in zip(spairs, impl["spairs"])]
    streams.append(("spairs", "spair_case", "check_spair", t5, spairs, impl["spairs"]))

    model_ok = core.vo_ok("Pure/UnitsCheck.v")
    disagreements = []   # (stream, input, impl)
    failures = []        # (stream, input, impl)  -- property violated by the implementation
    if model_ok:
        for name, ty, fn, terms, inputs, results in streams:
            verd, errs = core.eval_verdicts(ctx.workdir, HEADER, ty, fn, terms, tag=name, shard_size=1500)
            for e in errs:
                st["broken"].append("model evaluation failed (%s): %s" % (name, e))
            for i, code in verd:
                if code & 2:
                    failures.append((name, inputs[i], results[i]))
                elif code & 1:
                    disagreements.append((name, inputs[i], results[i]))
    else:
        st["broken"].append("model Pure/UnitsCheck.v does not build against the regenerated tables")

    # results the wire format cannot carry faithfully (non-power-of-ten factors, exceptions)
    for (a, b2), r in list(zip(pairs, impl["pairs"])) + list(zip(spairs, impl["spairs"])):
        if r[1][0] == "raw" or not isinstance(r[0], bool):
            disagreements.append(("pairs", (a if isinstance(a, str) else text(a), b2 if isinstance(b2, str) else text(b2)), r))

    # --- fallback / second oracle in Python on the table domain (used for the search when
    # the model cannot be evaluated, and as a cross-check of the Gallina oracle otherwise)
    py_fail = []
    exps = {"": 0}
    try:
        for k, v in d["PREFIX_FACTORS"].items():
            exps[k] = T._pow10_exp(v, k)
    except Exception:
        exps = None
    for t, r in zip(atoms, impl["atomic"]):
        want = [prefixes[t[0]], units_[t[1]], POWERS[t[2]][1:]]
        if not (r[0] and r[1] and r[2] == want):
            py_fail.append(("atomic", text(t), r))
    if exps is not None:
        for (a, b2), r in zip(pairs, impl["pairs"]):
            same = a[1] == b2[1] and a[2] == b2[2]
            if same:
                try:
                    pw = int(POWERS[a[2]][1:]) if POWERS[a[2]] else 1
                    want = ["ok", (exps[prefixes[a[0]]] - exps[prefixes[b2[0]]]) * pw]
                    if not (r[0] is True and r[1] == want):
                        py_fail.append(("pairs", (text(a), text(b2)), r))
                except KeyError:
                    pass
            elif not (r[0] is False and r[1] == ["refused"]):
                py_fail.append(("pairs", (text(a), text(b2)), r))
    for c, r in zip(compounds, impl["compound"]):
        if not (r[0] and r[1]):
            py_fail.append(("compound", ctext(c), r))
    if not model_ok:
        failures.extend(py_fail)
    else:
        gallina = set((n, repr(i)) for n, i, _ in failures)
        for n, i, r in py_fail:
            if (n, repr(i)) not in gallina:
                st["broken"].append("oracles disagree on %s %r" % (n, i))

    # --- known finding: sanitizer not idempotent when the cleaned text contains "mu"
    kf = core.load_known(ID)
    kf_domains = set(e.get("match") for e in kf)
    new_fail = []
    kf_hit = {}
    def cleaned(x):
        # the clean-up as the property describes it: blanks removed, then "mu" and the two micro signs mapped to "u"
        return x.replace(" ", "").replace("mu", "u").replace("\u00b5", "u").replace("\u03bc", "u")
    for name, inp, r in failures:
        # the recorded finding: texts whose CLEANED form (by the clean-up as specified, not by what the implementation
        # returned) contains "mu" again, e.g. "mmu" -> "mu"
        if name == "strings" and "sanitizer_mu" in kf_domains and isinstance(inp, str) and "mu" in cleaned(inp):
            kf_hit.setdefault("sanitizer_mu", inp)
            continue
        new_fail.append((name, inp, r))
    for e in kf:
        if e.get("match") == "sanitizer_mu":
            w = e["witness"]
            rr = ctx.run_impl("impl_units.py", {"strings": [w]})["strings"][0]
            if rr[4] != rr[5]:
                ctx.known_hits.append("%s (witness %r: sanitizer gives %r, applied again %r)" % (e["what"], w, rr[4], rr[5]))

    if new_fail:
        new_fail.sort(key=lambda x: len(repr(x[1])))
        name, inp, r = new_fail[0]
        shown = None
        if model_ok:
            shown = "see `model` (evaluated by coqc vm_compute)"
        rp = ctx.write_replay("%s-seed%d.json" % (ID, ctx.seed), {
            "property": ID, "kind": "implementation violates the specification on a concrete input",
            "stream": name, "input": inp, "implementation_returned": r,
            "how_to_replay": "PYTHONPATH=%s /venv/bin/python -c 'from nixio.util import units; ...' with the input above; "
                             "./check C09 --replay <this file>" % ctx.repo,
            "more_failing_inputs": [(n, i, rr) for n, i, rr in new_fail[1:25]],
            "count": len(new_fail), "broken_obligations": st["broken"]})
        ctx.violation("%d inputs violate the C09 specification, smallest: %s %r -> %r" % (len(new_fail), name, inp, r), rp)
    elif disagreements:
        disagreements.sort(key=lambda x: len(repr(x[1])))
        st["broken"].append("correspondence: model and implementation disagree on %d inputs, e.g. %s %r -> impl %r"
                            % (len(disagreements), disagreements[0][0], disagreements[0][1], disagreements[0][2]))

    total = sum(len(s[3]) for s in streams)
    nontriv = len(set(repr(x) for s in streams for x in s[4] if x not in ("",)))
    ctx.coverage.update({
        "evaluations": total, "distinct_nontrivial": nontriv,
        "rule": "stream atomic: EVERY prefix x unit x power string of the current tables (exhaustive); "
                "stream pairs: every prefix pair x power for %d of %d units (%s) + random cross pairs; "
                "compound: random products/quotients of 2-4 table atoms; strings: mutated units/compounds/junk over an "
                "alphabet with blanks and both micro signs; spairs: scalable/scaling on arbitrary string pairs. "
                "distinct_nontrivial = number of distinct non-empty inputs over all streams"
                % (len(unit_sel), nU, "exhaustive" if thorough else "random subset, seed-dependent"),
        "exhaustive": bool(thorough),
        "streams": {s[0]: len(s[3]) for s in streams},
        "same_unit_pairs": n_same,
        "disagreements": len(disagreements), "spec_failures": len(failures),
        "samples": [text(atoms[37]), list(pairs[5][0]) and [text(pairs[5][0]), text(pairs[5][1]), impl["pairs"][5]],
                    [ctext(compounds[0]), impl["compound"][0]], [strings[40], impl["strings"][40]]],
    })
    return st
